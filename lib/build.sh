# sourced by ./check: builds the framework binaries (if missing) and the per-run scratch copies.
export GOFLAGS=-mod=mod GOPROXY=off GOSUMDB=off GOTOOLCHAIN=local
VERIF=${VERIF:-/verif}
REPO=${REPO:-/repo}

build_tools() {
  mkdir -p "$VERIF/bin"
  if [ ! -x "$VERIF/bin/instrument" ] || [ -n "$(find "$VERIF/instr" -newer "$VERIF/bin/instrument" -name '*.go' 2>/dev/null)" ]; then
    (cd "$VERIF/instr" && go build -o "$VERIF/bin/instrument" .) || return 2
  fi
  if [ ! -x "$VERIF/bin/supervisor" ] || [ -n "$(find "$VERIF/sim" -newer "$VERIF/bin/supervisor" -name '*.go' 2>/dev/null)" ]; then
    (cd "$VERIF/sim" && go build -o "$VERIF/bin/supervisor" ./sup) || return 2
  fi
}

# build_scratch <dir> [race]: copies $REPO's working tree twice (real / inst), instruments inst, builds workers
build_scratch() {
  local S=$1 race=$2
  mkdir -p "$S/bin" || return 2
  rsync -a --exclude .git --exclude zzverif "$REPO/" "$S/real/" || return 2
  cp -r "$S/real" "$S/inst" || return 2
  for d in real inst; do
    mkdir -p "$S/$d/zzverif"
    cp -r "$VERIF/sim/simrt" "$VERIF/sim/spec" "$VERIF/sim/harness" "$S/$d/zzverif/" || return 2
  done
  "$VERIF/bin/instrument" -dir "$S/inst" -out "$S/seams.json" > "$S/instrument.log" 2>&1 || { cat "$S/instrument.log" >&2; return 2; }
  (cd "$S/inst" && go build -o "$S/bin/simworker" ./zzverif/harness) > "$S/build-sim.log" 2>&1 || { cat "$S/build-sim.log" >&2; return 2; }
  (cd "$S/real" && go build -o "$S/bin/realworker" ./zzverif/harness) > "$S/build-real.log" 2>&1 || { cat "$S/build-real.log" >&2; return 2; }
  if [ "$race" = race ]; then
    (cd "$S/real" && go build -race -o "$S/bin/raceworker" ./zzverif/harness) > "$S/build-race.log" 2>&1 || { cat "$S/build-race.log" >&2; return 2; }
  fi
}
