#!/bin/bash
# Builds the framework binaries (instrumenter, supervisor) from files on disk only. Offline.
VERIF=$(cd "$(dirname "$0")" && pwd); export VERIF
. "$VERIF/lib/build.sh"
rm -f "$VERIF/bin/instrument" "$VERIF/bin/supervisor"
build_tools || { echo "setup failed" >&2; exit 1; }
mkdir -p "$VERIF/evidence" "$VERIF/out/replays"
echo "setup ok: $(ls "$VERIF/bin")"
