#!/usr/bin/env python3
# tools/writemeta.py <seed-dir> <property> <detected: as-stood|after-strengthening|missed> <needs> <caught_by> [notes]
import json,sys,re,os
d,prop,det,needs,caught=sys.argv[1:6]
notes=sys.argv[6] if len(sys.argv)>6 else ""
conf=""
try:
    for l in open(os.path.join(d,'confirm.log')):
        if l.startswith('confirm:'): conf=l.strip()[9:]
except Exception: pass
keys=[]
try:
    for l in open(os.path.join(d,'check_quick.log')):
        m=re.match(r'^  key: (.*)$',l.rstrip())
        if m and m.group(1) not in keys: keys.append(m.group(1))
except Exception: pass
meta={"seed_id":os.path.basename(d.rstrip('/')),"property":prop,
 "origin":"independent sub-agent given only the property text and its own git worktree of /repo",
 "needs_to_manifest":needs,"confirmed_by_me":conf,
 "what_i_ran":["tools/seedcheck.sh (scratch worktree: git apply patch.diff; go test -vet=off -count=1 ./... ; demo with and without the change)",
  "REPO=<scratch worktree with the patch> ./check %s --tier quick"%prop],
 "detected":det,"caught_by":caught,"violation_keys_reported":keys,"notes":notes}
json.dump(meta,open(os.path.join(d,'meta.json'),'w'),indent=1)
print(json.dumps(meta)[:300])
