#!/bin/bash
# tools/realreplay.sh <replay.json> [rounds]: run the first call of a replay file on the UN-instrumented library.
VERIF=$(cd "$(dirname "$0")/.." && pwd)
f=$1; rounds=${2:-1}
read -r edges opts < <(python3 -c "
import json,sys
r=json.load(open('$f')); c=r['jobs'][0]['job']['calls'][0]
print(json.dumps(c['edges'],separators=(',',':')).replace(' ','\\\\u0020'), json.dumps(c.get('opts',{}),separators=(',',':')).replace(' ','\\\\u0020'))")
"$VERIF/tools/realrepeat.sh" "$edges" "$opts" "$rounds" 2>/dev/null | head -3
