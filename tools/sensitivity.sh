#!/bin/bash
# tools/sensitivity.sh [pattern]: run every mutant in mutants/ (or those matching pattern) against the check named by its
# filename prefix (c01_ -> C01 ...; par_ -> all four). A mutant whose name contains _OK must NOT be reported (exit 0);
# every other one must be detected (exit 1). Prints one line per mutant. Not part of quick/thorough.
VERIF=$(cd "$(dirname "$0")/.." && pwd); cd "$VERIF"
pat=${1:-}
for f in mutants/*$pat*.diff; do
  b=$(basename "$f" .diff)
  case "$b" in c01_*) props=C01;; c07_*) props=C07;; c15_*) props=C15;; c18_*) props=C18;; *) props="C07 C15";; esac  # par_components: correct without a monitor; with monitors its goroutines do leak events into nested calls (C18 reports that, rightly)
  for p in $props; do
    t0=$(date +%s)
    out=$(./tools/mutant.sh "$f" $p 2>&1); code=$(echo "$out" | grep -o 'exit=[0-9]*' | tail -1)
    keys=$(echo "$out" | grep '^  key:' | sed 's/^  key: //' | head -3 | tr '\n' ';')
    want="exit=1"; case "$b" in *_OK*) want="exit=0";; esac
    verdict=DETECTED; [ "$code" = "exit=0" ] && verdict=missed; [ "$code" = "exit=2" ] && verdict=TROUBLE
    case "$b" in *_OK*) verdict="quiet(as required)"; [ "$code" != "exit=0" ] && verdict="FALSE-ALARM";; esac
    printf '%-55s %-4s %-20s %4ss  %s\n' "$b" "$p" "$verdict" $(( $(date +%s)-t0 )) "$keys"
  done
done
