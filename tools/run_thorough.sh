#!/bin/bash
# tools/run_thorough.sh <id>...: runs the thorough tier of the given checks in /verif against /repo and keeps a copy of each
# evidence file under evidence/thorough/ (the registered evidence_file is rewritten by whatever tier ran last).
VERIF=$(cd "$(dirname "$0")/.." && pwd); cd "$VERIF"; mkdir -p evidence/thorough
for p in "$@"; do
  echo "=== $p thorough, started $(date -u +%FT%TZ), /verif $(git rev-parse --short HEAD), /repo $(git -C /repo rev-parse --short HEAD)"
  ./check "$p" --tier thorough > /tmp/thorough_$p.out 2>&1; code=$?
  grep -v '^   \|^  total' /tmp/thorough_$p.out | cut -c1-400 | tail -40
  echo "exit=$code"
  if [ -f evidence/$p.json ] && grep -q '"tier": "thorough"' evidence/$p.json; then cp evidence/$p.json evidence/thorough/$p.json; echo "kept evidence/thorough/$p.json"; fi
done
