#!/bin/bash
# tools/torture.sh: regression test of the instrumenter. Adds a package full of awkward constructs (embedded mutexes,
# generic map ranges, channels incl. select, goroutines, pools, atomics, labels/goto, unsafe addresses, maps.Keys...) to a
# scratch copy of /repo, instruments it, requires `go build ./...` of the whole instrumented module to succeed, runs the
# torture function under the simulator (identity / reverse / seeded) twice and requires identical output.
VERIF=$(cd "$(dirname "$0")/.." && pwd); . "$VERIF/lib/build.sh"
T=$(mktemp -d /tmp/verif-tort.XXXXXX); S=$(mktemp -d /tmp/verif-tortS.XXXXXX); trap 'rm -rf "$T" "$S"' EXIT
rsync -a --exclude .git "$REPO/" "$T/" && mkdir -p "$T/internal/zz" "$T/cmd/zztorture" || exit 2
cp "$VERIF/tools/torture/torture.go.txt" "$T/internal/zz/torture.go"; cp "$VERIF/tools/torture/main.go.txt" "$T/cmd/zztorture/main.go"
build_tools || exit 2
REPO=$T build_scratch "$S" || { echo "FAIL: scratch build"; exit 1; }
(cd "$S/inst" && go build ./... && go build -o "$S/bin/torture" ./cmd/zztorture) || { echo "FAIL: instrumented module does not compile"; exit 1; }
a=$("$S/bin/torture") || { echo "$a"; echo "FAIL: torture run"; exit 1; }
b=$("$S/bin/torture"); echo "$a"
[ "$a" = "$b" ] && echo "torture: ok (compiles, returns, deterministic)" || { echo "FAIL: two runs differ"; echo "$b"; exit 1; }
