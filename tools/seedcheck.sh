#!/bin/bash
export VERIF_EVIDENCE_DIR=${VERIF_EVIDENCE_DIR:-/tmp/verif-evidence-scratch}; mkdir -p "$VERIF_EVIDENCE_DIR"
# tools/seedcheck.sh <worktree> <seed-id> <property> <demo-dest-relative-path> <demo go test args...>
# 1. copies <worktree>/SEED into /verif/seeded/<seed-id>/   2. confirms the seeded change independently in a scratch worktree
# (patch applies to /repo HEAD, existing suite green, demo red with / green without)   3. runs ./check <property> against it
# (patch applied to /repo, reverted afterwards)   4. prints a summary; meta.json is written by hand afterwards.
set -u
wt=$1; id=$2; prop=$3; dest=$4; shift 4
VERIF=$(cd "$(dirname "$0")/.." && pwd)
export GOFLAGS=-mod=mod GOPROXY=off GOSUMDB=off GOTOOLCHAIN=local
out=$VERIF/seeded/$id; mkdir -p "$out"
cp -r "$wt"/SEED/* "$out"/ 2>/dev/null
[ -f "$out/patch.diff" ] || { echo "no patch.diff"; exit 2; }
[ -z "$(git -C "${REPO:-/repo}" status --porcelain)" ] || { echo "${REPO:-/repo} not clean"; exit 2; }
C=/tmp/confirm-$id; git -C /repo worktree remove --force "$C" 2>/dev/null; git -C /repo worktree add -q --detach "$C" HEAD || exit 2
trap 'git -C /repo worktree remove --force "$C" 2>/dev/null; git -C /repo checkout -q -- . 2>/dev/null' EXIT
log=$out/confirm.log; : > "$log"
( cd "$C" && git apply "$out/patch.diff" ) || { echo "patch does not apply to /repo HEAD" | tee -a "$log"; exit 2; }
echo "== existing suite with the change" >> "$log"
( cd "$C" && go build ./... && go test -vet=off -count=1 ./... ) >> "$log" 2>&1; suite=$?
demo_src=$(ls "$out"/*_test.go 2>/dev/null | head -1)
if [ -n "$demo_src" ]; then mkdir -p "$C/$(dirname "$dest")"; cp "$demo_src" "$C/$dest"; fi
if [ -d "$out/demo" ]; then mkdir -p "$C/SEED"; cp -r "$out/demo" "$C/SEED/"; fi
echo "== demo with the change: $*" >> "$log"
( cd "$C" && "$@" ) >> "$log" 2>&1; with=$?
( cd "$C" && git apply -R "$out/patch.diff" )
echo "== demo without the change" >> "$log"
( cd "$C" && "$@" ) >> "$log" 2>&1; without=$?
echo "confirm: suite_with_change_exit=$suite demo_with_change_exit=$with demo_without_change_exit=$without" | tee -a "$log"
# run the check against the scratch worktree with the change applied (REPO override): /repo itself stays untouched, so
# that background runs that rebuild from /repo are never contaminated
( cd "$C" && git checkout -q -- . && git clean -fdq && git apply "$out/patch.diff" ) || exit 2
REPO="$C" "$VERIF/check" "$prop" > "$out/check_quick.log" 2>&1; code=$?
echo "check $prop quick exit=$code"; grep '^  key:\|^VIOLATION\|TROUBLE' "$out/check_quick.log" | head -6
