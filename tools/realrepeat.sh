#!/bin/bash
# tools/realrepeat.sh '<edges json>' ['<opts json>'] [rounds] : runs the UN-instrumented library on one input
# repeatedly in one process (and in 3 processes) and reports whether results differ. Triage helper.
VERIF=$(cd "$(dirname "$0")/.." && pwd); . "$VERIF/lib/build.sh"
edges=$1; opts=${2:-{\}}; rounds=${3:-200}
S=$(mktemp -d /tmp/verif-rr.XXXXXX); trap 'rm -rf "$S"' EXIT
build_tools && build_scratch "$S" || exit 2
job="{\"id\":1,\"kind\":\"stress\",\"calls\":[{\"edges\":$edges,\"opts\":$opts}],\"goroutines\":1,\"rounds\":$rounds,\"budgets\":{\"ticks\":0,\"depth\":0,\"bytes\":0}}"
for p in 1 2 3; do
  echo "$job" | timeout 60 "$S/bin/realworker" -real | grep '^RESULT' | python3 -c "
import sys,json
r=json.loads(sys.stdin.readline()[7:])
solo=r['solo'][0]; outs=r.get('outcomes') or []
hs=set([solo.get('hash')]+[o.get('hash') for o in outs])
print('process $p: first call', solo['verdict'], solo.get('hash'), solo.get('detail',''), '| differing repeats:', len(outs), 'of', $rounds, '| distinct results:', len(hs))
for o in outs[:3]: print('   ', o['verdict'], o.get('hash'), o.get('detail','')[:200])
"
done
