#!/usr/bin/env python3
# tools/seedmeta.py <seed-id> <property> <detected: yes|no|after-strengthening> "<needs>" "<caught by>" ["<notes>"]
import sys,json,os,re
sid,prop,det,needs,by=sys.argv[1:6]; notes=sys.argv[6] if len(sys.argv)>6 else ""
d=f"/verif/seeded/{sid}"
conf=open(d+"/confirm.log").read() if os.path.exists(d+"/confirm.log") else ""
m=re.search(r"confirm: (.*)",conf)
chk=open(d+"/check_quick.log").read() if os.path.exists(d+"/check_quick.log") else ""
keys=re.findall(r"^  key: (.*)$",chk,re.M)
meta={"seed_id":sid,"property":prop,"origin":"independent sub-agent given only the property text and its own git worktree of /repo",
 "needs_to_manifest":needs,"confirmed_by_me":m.group(1) if m else "","what_i_ran":[f"tools/seedcheck.sh (scratch worktree: git apply patch.diff; go test -vet=off -count=1 ./... ; demo with and without the change)",f"git -C /repo apply patch.diff; ./check {prop} --tier quick; git -C /repo checkout -- ."],
 "detected":det,"caught_by":by,"violation_keys_reported":keys[:6],"notes":notes}
json.dump(meta,open(d+"/meta.json","w"),indent=1); print("wrote",d+"/meta.json")
