#!/bin/bash
export VERIF_EVIDENCE_DIR=${VERIF_EVIDENCE_DIR:-/tmp/verif-evidence-scratch}; mkdir -p "$VERIF_EVIDENCE_DIR"
# tools/mutant.sh <patch.diff> <property> [check args...]: apply a property-breaking patch to /repo, run the check, revert.
# Sensitivity testing only; the patch is never committed to /repo.
patch=$(realpath "$1"); prop=$2; shift 2
VERIF=$(cd "$(dirname "$0")/.." && pwd)
[ -z "$(git -C /repo status --porcelain)" ] || { echo "/repo is not clean" >&2; exit 2; }
git -C /repo apply "$patch" || exit 2
trap 'git -C /repo checkout -- . ; git -C /repo clean -fdq' EXIT
(cd /repo && GOFLAGS=-mod=mod GOPROXY=off GOSUMDB=off go build ./... ) || { echo "mutant does not build"; exit 2; }
"$VERIF/check" "$prop" "$@"
echo "exit=$?"
