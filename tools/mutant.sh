#!/bin/bash
export VERIF_EVIDENCE_DIR=${VERIF_EVIDENCE_DIR:-/tmp/verif-evidence-scratch}; mkdir -p "$VERIF_EVIDENCE_DIR"
# tools/mutant.sh <patch.diff> <property> [check args...]: apply a property-breaking patch to a scratch worktree of /repo
# (HEAD), run the check against that worktree (REPO override) and remove it. /repo itself is never touched, so checks
# running in the background against /repo are not disturbed. Sensitivity testing only.
patch=$(realpath "$1"); prop=$2; shift 2
VERIF=$(cd "$(dirname "$0")/.." && pwd)
W=$(mktemp -d /tmp/mutant-wt.XXXXXX); rmdir "$W"
git -C /repo worktree add -q --detach "$W" HEAD || exit 2
trap 'git -C /repo worktree remove --force "$W" 2>/dev/null; rm -rf "$W"' EXIT
git -C "$W" apply "$patch" || { echo "patch does not apply"; exit 2; }
(cd "$W" && GOFLAGS=-mod=mod GOPROXY=off GOSUMDB=off go build ./... ) || { echo "mutant does not build"; exit 2; }
REPO="$W" "$VERIF/check" "$prop" "$@"
echo "exit=$?"
