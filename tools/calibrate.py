#!/usr/bin/env python3
# tools/calibrate.py dump1.tsv [dump2.tsv ...] > sim/sup/budget_table.go
# Input: files written by  VERIF_CALIBRATE=1 VERIF_DUMP=<file> ./check C01 --scale N  on the repaired tree.
import sys,re,collections
B=[10,20,30,45,70,100,150,1<<30]
def bucket(s):
    for i,b in enumerate(B):
        if s<b: return i
tab=collections.defaultdict(lambda:[0]*len(B)); n=collections.Counter()
for f in sys.argv[1:]:
    for l in open(f):
        fam,opts,v,key,ne,ticks,depth,frame,ffn,edges=l.rstrip('\n').split('\t')
        if v!='OK': continue
        base=re.split(r'[/(]',fam)[0]
        if re.search(r'(^| )p4=ns( |$)',opts): base+='+nspos'
        ids=set()
        for e in edges.split(', '):
            m=re.match(r'^(".*?"|[^>]*?)->(".*"|.*)$',e)
            if m: ids.add(m.group(1)); ids.add(m.group(2))
        s=int(ne)+len(ids)
        i=bucket(s); n[base]+=1
        tab[base][i]=max(tab[base][i],int(ticks))
print('package main\n')
print('// Written by tools/calibrate.py from %d calibration runs (returning executions only). key: family base name'%sum(n.values()))
print('// (+"+nspos" with the NetworkSimplex positioner); value: largest tick count per size bucket (s=|E|+|V| < 10, 20, 30, 45, 70, 100, 150, inf).')
print('var tickTable = map[string][]uint64{')
for k in sorted(tab):
    print('\t%-24s {%s}, // %d runs'%('"%s":'%k, ', '.join(str(x) for x in tab[k]), n[k]))
print('}')
