module github.com/nulab/autog/zzverif

go 1.23
