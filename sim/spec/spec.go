// Package spec holds the explicit, self-describing run specifications exchanged between the
// supervisor and the worker processes. A spec (plus the code under test) determines a run
// completely; a replay file is a spec plus the verdict it is expected to reproduce.
package spec

// Options selects the documented production options of autog.Layout. Empty / nil = not passed.
type Options struct {
	P1           string       `json:"p1,omitempty"` // greedy | greedy-random | dfs
	P2           string       `json:"p2,omitempty"` // ns | longestpath
	P3           string       `json:"p3,omitempty"` // wmedian | noop
	P4           string       `json:"p4,omitempty"` // sinkcoloring | valign | packright | ns | bk
	BK           *int         `json:"bk,omitempty"` // WithBrandesKoepfLayout
	P5           string       `json:"p5,omitempty"` // polyline | straight | ortho | splines | noop
	FixedSize    *[2]float64  `json:"fixed_size,omitempty"`
	Sizes        []NodeSize   `json:"sizes,omitempty"`
	Sizes2       []NodeSize   `json:"sizes2,omitempty"` // a second WithNodeSize option in the same call, with a map of its own
	NodeSpacing  *float64     `json:"node_spacing,omitempty"`
	LayerSpacing *float64     `json:"layer_spacing,omitempty"`
	Thoroughness *uint        `json:"thoroughness,omitempty"`
	VirtualOut   *bool        `json:"virtual_out,omitempty"`
}

type NodeSize struct {
	ID string  `json:"id"`
	W  float64 `json:"w"`
	H  float64 `json:"h"`
}

// MonitorSpec describes the monitor role of a call.
type MonitorSpec struct {
	Role string `json:"role,omitempty"` // "" (none) | record | shared:<name>
	// fault injected from inside Monitor.Log at the At-th event delivered to this call's monitor (1-based)
	Fault string `json:"fault,omitempty"` // "" | panic | goexit | nested
	At    int    `json:"at,omitempty"`
	// Fault == "nested": at the At-th event the callback itself calls Layout (re-entrant call on the same goroutine)
	// with these arguments; NestedMon: "" (no monitor) | record (a fresh recording monitor) | same (the outer monitor)
	Nested    *Call  `json:"nested,omitempty"`
	NestedMon string `json:"nested_mon,omitempty"`
}

// NestedRec records a re-entrant Layout call made from inside a monitor callback.
type NestedRec struct {
	Parent  int    `json:"parent"`  // index of the outer call
	Monitor string `json:"monitor"` // identity of the monitor passed to the nested call ("" = none)
	Invoke  uint64 `json:"invoke"`
	End     uint64 `json:"end"`
	Verdict string `json:"verdict"` // OK | PANIC
}

// Call is one invocation of autog.Layout.
type Call struct {
	Edges   [][]string  `json:"edges"`
	Opts    Options     `json:"opts"`
	Monitor MonitorSpec `json:"monitor,omitempty"`
	// PanicAtTick > 0 injects a panic at that simulated tick of this call (stands for any internal panic).
	PanicAtTick uint64 `json:"panic_at_tick,omitempty"`
	// SameAs >= 0: reuse the identical Source and Option values of the call with that index (history checks).
	SameAs *int `json:"same_as,omitempty"`
	// With SameAs: before this call the CALLER edits its own argument objects in place - the size map captured by the
	// reused WithNodeSize option (EditSizes: entries set; W < 0 deletes the entry) and/or the strings of the reused edge
	// list (EditEdges: same shape as the original). The call must behave like a call with freshly built, equal arguments.
	EditSizes []NodeSize `json:"edit_sizes,omitempty"`
	EditEdges [][]string `json:"edit_edges,omitempty"`
	// Repeat > 1 (history jobs): the call is made Repeat times in a row with the same argument values; the recorded
	// outcome is that of the last repetition (long histories are mostly such filler)
	Repeat int `json:"repeat,omitempty"`
	// NoRef (history jobs): the result of this call is not compared with a fresh-process reference (filler)
	NoRef bool `json:"no_ref,omitempty"`
	// ShareOpts >= 0 (conc jobs): this caller passes the very Option values built for the caller with that index (an
	// application builds its []autog.Option once and hands it to every goroutine); its source is its own.
	ShareOpts *int `json:"share_opts,omitempty"`
}

// Override dictates the permutation applied at one execution of one map-range site.
type Override struct {
	Site string `json:"site"` // file:line of the range statement, relative to the module root
	Occ  int    `json:"occ"`  // which execution of that site within the call (0-based); -1 = every execution
	Kind string `json:"kind"` // reverse | rotate | swap | perm
	Arg  int    `json:"arg,omitempty"`
	Perm []int  `json:"perm,omitempty"`
}

// Resolution fixes every choice the simulator owns for one call.
type Resolution struct {
	Adv       string     `json:"adv"` // identity | reverse | rotate | seeded | overrides
	AdvSeed   uint64     `json:"adv_seed,omitempty"`
	Overrides []Override `json:"overrides,omitempty"`
	T0        int64      `json:"t0,omitempty"`      // simulated clock origin (ns since epoch)
	Rate      int64      `json:"rate,omitempty"`    // simulated ns per tick (0 = 1000): how fast the machine is
	Entropy   uint64     `json:"entropy,omitempty"` // seed behind math/rand globals
	// ClockPerRead: the simulated clock advances by a fixed step per read instead of per tick, so that what a call
	// observes of the clock does not depend on how much work it did before the read (conc jobs)
	ClockPerRead bool `json:"clock_per_read,omitempty"`
	// StackDepth: Layout is called from inside a recursion this many frames deep (the caller's own stack is an ambient
	// condition: recursion guards that ask the runtime how deep the stack is see it)
	StackDepth int `json:"stack_depth,omitempty"`
}

type Budgets struct {
	Ticks uint64 `json:"ticks"` // total simulated time of the call (backstop)
	Frame uint64 `json:"frame"` // loop iterations within one function activation (hang detector)
	Depth int    `json:"depth"`
	Bytes uint64 `json:"bytes"`
}

// Schedule selects how the cooperative scheduler picks tasks.
type Schedule struct {
	Policy   string `json:"policy"` // rr | random | pct | stall | explicit | serial  (stall: Depth = per-mille of yields that stall the task, Steps = longest stall)
	Seed     uint64 `json:"seed,omitempty"`
	Depth    int    `json:"depth,omitempty"`    // pct: number of priority change points
	Steps    int    `json:"steps,omitempty"`    // pct: expected number of scheduling steps (range of the change points)
	EntryPct int    `json:"entry_pct,omitempty"` // percentage of function entries that are extra yield points
	LoopPct  int    `json:"loop_pct,omitempty"`  // per-mille of loop iterations that are extra yield points
	Explicit []int  `json:"explicit,omitempty"` // run-length encoded: task, count, task, count, ...
}

// Job is one unit of work for a worker.
type Job struct {
	ID   int    `json:"id"`
	Kind string `json:"kind"` // multi | history | conc | stress
	// multi: run Calls[0] once per resolution, each from a clean simulator state
	// history: run Calls sequentially in this process under Res[0]
	// conc: run Calls concurrently under Sched (plus a solo reference run of each)
	Calls       []Call       `json:"calls"`
	Res         []Resolution `json:"res,omitempty"`
	Sched       *Schedule    `json:"sched,omitempty"`
	Budgets     Budgets      `json:"budgets"`
	WantFull    bool         `json:"want_full,omitempty"`    // return the full canonical serialisation, not only its hash
	RecordPerms bool         `json:"record_perms,omitempty"` // return every non-identity permutation applied
	// stress (real worker only): goroutines x rounds
	Goroutines int `json:"goroutines,omitempty"`
	Rounds     int `json:"rounds,omitempty"`
	// stress: the Option values of call i are built once and shared by every goroutine that makes call i
	ShareOpts bool `json:"share_opts,omitempty"`
}

// AppliedPerm reports a permutation the adversary applied.
type AppliedPerm struct {
	Site string `json:"site"`
	Occ  int    `json:"occ"`
	N    int    `json:"n"`
	Perm []int  `json:"perm"`
}

// Outcome of one Layout call.
type Outcome struct {
	Verdict string `json:"verdict"`          // OK | PANIC | BUDGET | GOEXIT | INJECTED | HARNESS | DEADLOCK
	Detail  string `json:"detail,omitempty"` // panic message / budget kind
	Site    string `json:"site,omitempty"`   // innermost module function on the stack when it failed
	Stack   string `json:"stack,omitempty"`  // shortened stack (module frames only)
	Hash    string `json:"hash,omitempty"`   // hash of the canonical serialisation of the result (or of the panic)
	Full    string `json:"full,omitempty"`
	Ticks   uint64 `json:"ticks"`
	Depth   int    `json:"depth"`
	Frame   uint64 `json:"frame,omitempty"`    // largest loop-iteration count of one function activation
	FrameFn string `json:"frame_fn,omitempty"`
	Bytes   uint64 `json:"bytes,omitempty"`
	Trace   string `json:"trace,omitempty"` // rolling hash of every simulator event of the call
	// map-range statistics
	SiteExec  map[string][3]int `json:"site_exec,omitempty"` // site -> [executions, executions with >=2 keys, non-identity permutations]
	PermKinds map[string]int    `json:"perm_kinds,omitempty"`
	Perms     []AppliedPerm     `json:"perms,omitempty"`
	ClockReads int              `json:"clock_reads,omitempty"`
	ClockHash  string           `json:"clock_hash,omitempty"` // hash of every clock value the call was handed
	RandSeed   int64            `json:"rand_seed,omitempty"`
	ArgsMutated string          `json:"args_mutated,omitempty"`
	Nodes int `json:"nodes,omitempty"`
	Edges int `json:"edges,omitempty"`
	// C18
	Invoke uint64 `json:"invoke,omitempty"`
	End    uint64 `json:"end,omitempty"`
	Events int `json:"events,omitempty"`
	FaultFired bool `json:"fault_fired,omitempty"`
	LeakedTasks int `json:"leaked_tasks,omitempty"`
	Tasks int `json:"tasks,omitempty"` // goroutines of the call, the caller included
}

// Event is one Monitor.Log delivery.
type Event struct {
	Seq     uint64 `json:"seq"`
	Monitor string `json:"mon"`  // identity of the monitor that received it
	Call    int    `json:"call"` // index of the call that was executing (by the harness's own bookkeeping), -1 if none
	Phase   int    `json:"phase"`
	Alg     string `json:"alg"`
	Key     string `json:"key"`
}

// Conflict is an unordered pair of accesses to one package-level variable.
type Conflict struct {
	Var   string `json:"var"`
	Loc   string `json:"loc"` // "var" | "pointee"
	A     string `json:"a"`   // kind@pos
	B     string `json:"b"`
	TaskA int    `json:"task_a"`
	TaskB int    `json:"task_b"`
}

// Result is the worker's answer to a Job.
type Result struct {
	ID       int        `json:"id"`
	Outcomes []Outcome  `json:"outcomes"`
	Solo     []Outcome  `json:"solo,omitempty"` // conc: reference outcomes
	Events   []Event    `json:"events,omitempty"`
	Nested   []NestedRec `json:"nested,omitempty"`
	Conflicts []Conflict `json:"conflicts,omitempty"`
	SchedFP  string     `json:"sched_fp,omitempty"`
	SchedRLE []int      `json:"sched_rle,omitempty"`
	Switches int        `json:"switches,omitempty"`
	Yields   int        `json:"yields,omitempty"`
	Accesses map[string]int `json:"accesses,omitempty"` // var/kind -> count
	Overlap  bool       `json:"overlap,omitempty"`
	Error    string     `json:"error,omitempty"` // harness-level trouble
	Races    int        `json:"races,omitempty"` // stress: number of race reports (real -race worker)
	WallMs   float64    `json:"wall_ms,omitempty"`
	Stalled  string     `json:"stalled,omitempty"` // stress: no call completed anywhere for a long time; goroutine dump excerpt
}
