package main

import (
	"fmt"
	"os"
	"sort"
	"time"

	"github.com/nulab/autog/zzverif/spec"
)

// C01 — Layout always returns: no panic, process abort, hang or runaway memory.

// budgetFor returns the simulated-time / depth / memory budget for a spec (sim/sup/budgets.go, budget_table.go).
func budgetFor(nEdges, nNodes int) spec.Budgets {
	return budgetForFam("", false, nEdges, nNodes)
}

func budgetForFam(fam string, nsPositioner bool, nEdges, nNodes int) spec.Budgets {
	b := spec.Budgets{Ticks: tickBudgetFam(fam, nsPositioner, nEdges, nNodes), Frame: frameBudget(nEdges, nNodes), Depth: depthBudget(nEdges, nNodes), Bytes: byteBudget}
	if os.Getenv("VERIF_CALIBRATE") != "" {
		b.Ticks = 200_000_000_000 // calibration: measure, do not cut
	}
	return b
}

func c01Resolutions(r *rng, o spec.Options) []spec.Resolution {
	res := []spec.Resolution{{Adv: "seeded", AdvSeed: r.next(), T0: int64(r.next() >> 2), Entropy: r.next(), Rate: pick(r, int64(0), 0, 20, 100_000)}}
	if o.P1 == "greedy-random" {
		// the outcome is a function of the clock: sample several clock values per input
		for i := 0; i < 3; i++ {
			res = append(res, spec.Resolution{Adv: "seeded", AdvSeed: r.next(), T0: int64(r.next() >> 2), Entropy: r.next()})
		}
	} else if r.chance(30) {
		res = append(res, spec.Resolution{Adv: pick(r, "identity", "reverse", "rotate"), AdvSeed: r.next()})
	}
	return res
}

func (cx *Ctx) runC01() {
	nSpecs := cx.count(4000, 300000)
	onlyHuge := os.Getenv("VERIF_C01_ONLY_HUGE") != "" // experiments: the huge-input batch alone
	if onlyHuge {
		nSpecs = 0
	}
	gc := genCfg{allowRandomGreedy: true, nastyPct: 12, multiPct: 25, bigPct: 6, veryWidePct: 25, extremePct: 6}
	known := cx.replayKnown()
	corpusN := cx.runCorpus()

	r := rng{s: mix(cx.Seed, 0xC01)}
	jobs := make([]*spec.Job, nSpecs)
	fams := make([]string, nSpecs)
	for i := range jobs {
		es, fam := genGraph(&r, gc)
		c := spec.Call{Edges: es, Opts: genOptions(&r, es, gc)}
		jobs[i] = &spec.Job{ID: i, Kind: "multi", Calls: []spec.Call{c}, Res: c01Resolutions(&r, c.Opts), Budgets: budgetForFam(fam, c.Opts.P4 == "ns", len(es), nodeCount(es))}
		fams[i] = fam
	}
	// Brandes-Koepf on top of network-simplex layering, mid-sized connected graphs: the positioner with the most moving
	// parts (four directional layouts, blocks, classes, compaction) meets layerings with long edges and ties. Its failures
	// need structural coincidences that show in a few per thousand of such graphs and practically never below 7 nodes.
	bkc := genCfg{families: []string{"connected", "random", "dag", "longedges"}, bigPct: 30}
	for i, nBK := 0, cx.count(4000, 60000); i < nBK && !onlyHuge; i++ {
		es, fam := genGraph(&r, bkc)
		o := genOptions(&r, es, bkc)
		o.P2, o.P3, o.P4, o.Thoroughness = "", "", "bk", nil
		o.BK = nil
		if r.chance(60) {
			o.BK = iptr(r.intn(4))
		}
		if o.P5 == "splines" {
			o.P5 = pick(&r, "", "straight", "noop")
		}
		c := spec.Call{Edges: es, Opts: o}
		jobs = append(jobs, &spec.Job{ID: len(jobs), Kind: "multi", Calls: []spec.Call{c}, Res: []spec.Resolution{{Adv: "identity"}}, Budgets: budgetForFam(fam, false, len(es), nodeCount(es))})
		fams = append(fams, fam)
	}
	// a few HUGE but trivially shaped inputs: stars and two-level trees whose single wide layer passes the limits of
	// 8-, 15- and 16-bit integers (255/256, 32767/32768, 65535/65536) and a few round numbers. Trees have no crossings
	// and one or two layers, so every phase is linear or close to it: a 32769-leaf star lays out in under a second on
	// the real runtime. Small random graphs never get near these widths.
	nHuge := cx.count(16, 100)
	if onlyHuge {
		nHuge = 16
	}
	for i := 0; i < nHuge; i++ {
		w := pick(&r, 257, 1000, 4100, 32769, 32769, 65537) + r.intn(3)
		var es [][]string
		shape := pick(&r, "star-down", "star-down", "star-up", "tree2")
		if w > 5000 && shape == "tree2" {
			// the bilayer crossing counter allocates a |V1| x |V2| matrix by design (documented O(|E|+|V1||V2|)): two
			// adjacent layers of 16k nodes each are 2 GiB. That is the algorithm's known cost, not what this batch is after.
			shape = "star-down"
		}
		for x := 0; x < w; x++ {
			switch shape {
			case "star-down":
				es = append(es, []string{"hub", fmt.Sprintf("l%d", x)})
			case "star-up":
				es = append(es, []string{fmt.Sprintf("l%d", x), "hub"})
			default:
				if x < w/2 {
					es = append(es, []string{"hub", fmt.Sprintf("m%d", x)}, []string{fmt.Sprintf("m%d", x), fmt.Sprintf("l%d", x)})
				}
			}
		}
		o := spec.Options{P1: pick(&r, "", "dfs"), P2: pick(&r, "longestpath", "longestpath", ""), P4: pick(&r, "", "bk", "bk", "valign", "packright", "sinkcoloring"),
			P5: pick(&r, "", "straight", "noop", "polyline", "ortho")}
		if o.P4 == "bk" && r.chance(50) {
			o.BK = iptr(r.intn(4))
		}
		if r.chance(40) {
			o.FixedSize = &[2]float64{float64(r.between(1, 12) * 10), float64(r.between(1, 6) * 10)}
		}
		if w > 5000 && o.P2 == "" {
			o.P2 = "longestpath" // network simplex layering of a 32k-node star takes seconds on the real runtime; the simulator is 20x slower
		}
		c := spec.Call{Edges: es, Opts: o}
		fam := fmt.Sprintf("huge(%s)", shape)
		b := budgetForFam(fam, false, len(es), nodeCount(es))
		jobs = append(jobs, &spec.Job{ID: len(jobs), Kind: "multi", Calls: []spec.Call{c}, Res: []spec.Resolution{{Adv: "identity"}}, Budgets: b})
		fams = append(fams, fam)
	}
	cx.phase("C01: main batch")
	// one fresh worker process per spec, so that a failure replays exactly
	batch := *cx.simFresh
	batch.Deadline = time.Now().Add(cx.wallCap())
	results := batch.Run(jobs, nil)
	cx.phase("C01: analysing")
	cx.slowest(results, 8)

	evals := 0
	distinct := map[string]bool{}
	verdicts := map[string]int{}
	famCount := map[string]int{}
	cfgCount := map[string]int{}
	failByKey := map[string]int{}
	randSeeds := map[int64]bool{}
	var ticks, maxTicks uint64
	maxDepth := 0
	range2 := 0
	var samples []any
	type cand struct {
		job *spec.Job
		j   int
		key string
		fam string
	}
	var cands []cand
	var dump *os.File
	if p := os.Getenv("VERIF_DUMP"); p != "" {
		dump, _ = os.Create(p)
		defer dump.Close()
	}
	for i, jr := range results {
		ocs := cx.multiOutcomes(cx.sim, jr)
		if ocs == nil {
			continue
		}
		c := &jr.Job.Calls[0]
		famCount[fams[i]]++
		cfgCount[fmt.Sprintf("p1=%s p2=%s p4=%s p5=%s", c.Opts.P1, c.Opts.P2, c.Opts.P4, c.Opts.P5)]++
		nn := nodeCount(c.Edges)
		for j, o := range ocs {
			evals++
			ticks += o.Ticks
			verdicts[o.Verdict]++
			if o.Verdict == "OK" {
				if o.Ticks > maxTicks {
					maxTicks = o.Ticks
				}
				if o.Depth > maxDepth {
					maxDepth = o.Depth
				}
				if nn >= 3 && !isSimplePath(c.Edges) && o.Ticks > 200 {
					k := callKey(c)
					if c.Opts.P1 == "greedy-random" {
						k += fmt.Sprint(jr.Job.Res[j].T0)
					}
					distinct[k] = true
				}
			}
			if c.Opts.P1 == "greedy-random" && o.ClockReads > 0 {
				randSeeds[jr.Job.Res[j].T0] = true
			}
			for _, v := range o.SiteExec {
				range2 += v[1]
			}
			if dump != nil {
				fmt.Fprintf(dump, "%s\t%s\t%s\t%s\t%d\t%d\t%d\t%d\t%s\t%s\n", fams[i], optsText(c.Opts), o.Verdict, failKey(o), len(c.Edges), o.Ticks, o.Depth, o.Frame, o.FrameFn, edgesText(c.Edges))
			}
			switch o.Verdict {
			case "OK":
			case "HARNESS":
				cx.trouble("harness verdict: %s", o.Detail)
			case "TIMEOUT":
				cx.trouble("wall-clock watchdog fired on a simulated run: %s", edgesText(c.Edges))
			default:
				k := failKey(o)
				failByKey[k]++
				if failByKey[k] <= 3 {
					cands = append(cands, cand{jr.Job, j, k, fams[i]})
				}
			}
		}
		if len(samples) < 5 && i%(nSpecs/5+1) == 0 {
			samples = append(samples, map[string]any{"family": fams[i], "edges": edgesText(c.Edges), "options": optsText(c.Opts),
				"resolutions": len(jr.Job.Res), "outcomes": hashesOf(ocs), "budget": jr.Job.Budgets})
		}
	}
	// minimise one instance per failure class (smallest original first)
	cx.phase(fmt.Sprintf("C01: %d failure classes, minimising", len(failByKey)))
	sort.SliceStable(cands, func(a, b int) bool { return len(cands[a].job.Calls[0].Edges) < len(cands[b].job.Calls[0].Edges) })
	// the whole minimisation phase is bounded: a hang costs its full budget on every evaluation
	phaseEnd := time.Now().Add(6 * time.Minute)
	if cx.Tier == "thorough" {
		phaseEnd = time.Now().Add(25 * time.Minute)
	}
	for _, cd := range cands {
		if cx.hasViolation(cd.key) {
			continue
		}
		if time.Now().After(phaseEnd) {
			// out of time: report the instance as found, unminimised (it ran in a fresh process, so it replays as is)
			j := *cd.job
			j.Res = []spec.Resolution{cd.job.Res[cd.j]}
			cx.report(cd.key, fmt.Sprintf("Layout(%s; %s) failed (%s); not minimised (time)", edgesText(j.Calls[0].Edges), optsText(j.Calls[0].Opts), cd.key),
				&ReplayFile{Property: "C01", Oracle: "c01.returns", Key: cd.key, Jobs: []ReplayJob{{Pool: "simfresh", Job: j}}})
			continue
		}
		if cx.isKnown(cd.key) != nil {
			cx.report(cd.key, "", nil)
			continue
		}
		cx.c01Minimise(cd.job, cd.j, cd.key, cd.fam)
	}
	for k, n := range failByKey {
		for _, v := range cx.Viol {
			if v.Key == k {
				v.Count = n
			}
		}
	}
	after := cx.c01AfterAbort(&r)
	st, _ := cx.determinismSample(jobs, results, 30)
	wall := time.Since(cx.Start).Seconds()
	cov := map[string]any{
		"evaluations":         evals,
		"distinct_nontrivial": len(distinct),
		"rule": "specs = seeded graph families (random multigraphs, DAGs with duplicates, trees, paths incl. >64 layers, 2-cycle clusters, hub-reverse, self-loops, diamond chains, wide layers, long edges, slack ties, multi-component unions, adversarial node ids) x the documented production grid " +
			"{Greedy, Greedy-random, DepthFirst} x {NetworkSimplex, LongestPath} x WMedian x {SinkColoring, VAlign, PackRight, NetworkSimplex, B&K + forced 0..3} x {Polyline, Straight, Ortho, Splines, Noop} x sizes x spacings x thoroughness; " +
			"each spec runs under a seeded map-order adversary and a seeded clock origin (4 clock values for Greedy-random). evaluations = simulated Layout executions; verdict must be OK (returned) within the tick/depth/byte budget. " +
			"non-trivial iff the graph has >=3 nodes, is not a simple path, and the run went through the pipeline (>200 ticks); distinct = by canonical (edge list, options[, clock origin if Greedy-random]).",
		"samples":                      samples,
		"specs":                        nSpecs,
		"sim_ticks_total":              ticks,
		"runs_per_hour":                int(float64(evals) / wall * 3600),
		"verdicts":                     verdicts,
		"failure_classes":              failByKey,
		"families":                     famCount,
		"configurations":               cfgCount,
		"greedy_random_clock_values":   len(randSeeds),
		"range_executions_with_2plus_keys": range2,
		"max_ticks_of_a_returning_run": maxTicks,
		"max_depth_of_a_returning_run": maxDepth,
		"budget_rule":                  budgetRule,
		"faults_fired":                 map[string]int{"map-order permutation": range2, "clock origin (RNG seed) chosen by simulator": evals},
		"calls_after_an_aborted_call":  after,
		"determinism_selftest":         st,
		"regression_corpus_specs":     corpusN,
		"known_findings_confirmed":     known,
		"violation_keys":               violKeys(cx),
	}
	cx.writeEvidence(cov, []string{
		"inputs are non-empty, well-formed edge lists; options are the documented production options with finite non-negative sizes and spacings",
		"hang / runaway recursion / runaway memory are judged in simulated ticks, frames and bytes against budgets with >=100x margin over the largest returning run observed in calibration (budgets.go); every loop body and function entry of the module is a tick",
		"a worker process that dies (stack overflow, out of memory) is a verdict (FATAL), observed by the supervisor",
		"seeded search over small graphs (bulk <= 12 nodes, some up to ~130): evidence, not proof",
	})
}

func isSimplePath(es [][]string) bool {
	deg := map[string]int{}
	for _, e := range es {
		if e[0] == e[1] {
			return false
		}
		deg[e[0]]++
		deg[e[1]]++
	}
	if len(es) != len(deg)-1 {
		return false
	}
	for _, d := range deg {
		if d > 2 {
			return false
		}
	}
	return true
}

func (cx *Ctx) c01Fails(c spec.Call, res spec.Resolution, key, fam string) (bool, []JobResult) {
	job := &spec.Job{ID: 1, Kind: "multi", Calls: []spec.Call{c}, Res: []spec.Resolution{res}, Budgets: budgetForFam(fam, c.Opts.P4 == "ns", len(c.Edges), nodeCount(c.Edges)), WantFull: false}
	one := *cx.simFresh
	one.N = 1
	rs := one.Run([]*spec.Job{job}, nil)
	v, k, _, _ := cx.oracleReturns(rs)
	return v && k == key, rs
}

func (cx *Ctx) c01Minimise(job *spec.Job, j int, key, fam string) {
	c := job.Calls[0]
	res := job.Res[j]
	ok, _ := cx.c01Fails(c, res, key, fam)
	if !ok {
		cx.trouble("C01 failure %q did not reproduce when re-run alone (edges %s)", key, edgesText(c.Edges))
		return
	}
	budget := 40 * time.Second
	if len(key) > 6 && (key[:6] == "budget" || key[:5] == "fatal") {
		budget = 90 * time.Second
	}
	// simplest resolution first: does it fail under the identity order and clock 0 too?
	// (not for hangs: every evaluation of a hang costs its whole budget)
	simple := []spec.Resolution{{Adv: "identity"}, {Adv: "identity", T0: res.T0}, {Adv: "reverse"}}
	if budget > 100*time.Second {
		simple = nil
	}
	for _, simple := range simple {
		if ok, _ := cx.c01Fails(c, simple, key, fam); ok {
			res = simple
			break
		}
	}
	sc := shrinkCall(c, func(t spec.Call) bool { ok, _ := cx.c01Fails(t, res, key, fam); return ok }, budget)
	final := spec.Job{ID: 0, Kind: "multi", Calls: []spec.Call{sc}, Res: []spec.Resolution{res}, Budgets: budgetForFam(fam, sc.Opts.P4 == "ns", len(sc.Edges), nodeCount(sc.Edges))}
	one := *cx.simFresh
	one.N = 1
	rs := one.Run([]*spec.Job{&final}, nil)
	v, k, what, fp := cx.oracleReturns(rs)
	if !v || k != key {
		cx.trouble("a shrunk C01 violation did not reproduce (%s)", key)
		return
	}
	cx.report(k, what, &ReplayFile{Property: "C01", Oracle: "c01.returns", Key: k, What: what, Jobs: []ReplayJob{{Pool: "simfresh", Job: final}}, Expect: fp})
}


// c01AfterAbort: a valid call must also return when an EARLIER call of the same process left Layout abnormally - through
// the documented panic on an empty or malformed source, or through a panic / runtime.Goexit raised by the caller's own
// monitor. (Whatever such an exit leaves behind - a held lock, a half-updated table - is process state the next call meets.)
func (cx *Ctx) c01AfterAbort(r *rng) map[string]any {
	n := cx.count(250, 20000)
	gc := genCfg{allowRandomGreedy: true, nastyPct: 5, multiPct: 25, bigPct: 0}
	var jobs []*spec.Job
	for i := 0; i < n; i++ {
		es, fam0 := genGraph(r, gc)
		ab := spec.Call{Edges: es, Opts: genOptions(r, es, gc)}
		// one budget per job: the largest any of its calls is entitled to (calibrated per family / positioner / size)
		b := budgetForFam(fam0, ab.Opts.P4 == "ns", len(es), nodeCount(es))
		switch r.intn(4) {
		case 0:
			ab.Edges = [][]string{}
		case 1:
			k := r.intn(len(ab.Edges))
			ab.Edges[k] = []string{ab.Edges[k][0]}
		case 2:
			ab.Edges = append(ab.Edges, []string{"sl", "sl"})
			ab.Monitor = spec.MonitorSpec{Role: "record", Fault: "panic", At: r.between(1, 4)}
		default:
			ab.Edges = append(ab.Edges, []string{"sl", "sl"})
			ab.Monitor = spec.MonitorSpec{Role: "record", Fault: "goexit", At: r.between(1, 4)}
		}
		if ab.Opts.P5 == "splines" {
			ab.Opts.P5 = "polyline"
		}
		calls := []spec.Call{ab}
		for k := r.between(1, 2); k > 0; k-- {
			e2, fam2 := genGraph(r, gc)
			v := spec.Call{Edges: e2, Opts: genOptions(r, e2, gc)}
			if r.chance(50) {
				v.Opts = ab.Opts // the same algorithms meet what the aborted call left behind
				v.Opts.Sizes = nil
				if v.Opts.P4 == "ns" && len(e2)+nodeCount(e2) >= 45 {
					v.Opts.P4 = ""
				}
			}
			if v.Opts.P5 == "splines" { // known findings live there; they are judged by the main batch
				v.Opts.P5 = "ortho"
			}
			calls = append(calls, v)
			b2 := budgetForFam(fam2, v.Opts.P4 == "ns", len(e2), nodeCount(e2))
			b.Ticks, b.Frame, b.Depth = max(b.Ticks, b2.Ticks), max(b.Frame, b2.Frame), max(b.Depth, b2.Depth)
		}
		jobs = append(jobs, &spec.Job{ID: i, Kind: "history", Calls: calls, Res: []spec.Resolution{{Adv: "identity"}}, Budgets: b})
	}
	res := cx.simFresh.Run(jobs, nil)
	aborted, valid, failed := 0, 0, 0
	for _, jr := range res {
		if v, key, what, fp := cx.oracleAfterAbort([]JobResult{jr}); v {
			failed++
			if cx.hasViolation(key) || cx.isKnown(key) != nil {
				cx.report(key, what, nil)
			} else {
				j := *jr.Job
				cx.report(key, what, &ReplayFile{Property: "C01", Oracle: "c01.afterabort", Key: key, What: what, Jobs: []ReplayJob{{Pool: "simfresh", Job: j}}, Expect: fp})
			}
		}
		if jr.Res != nil {
			for i, o := range jr.Res.Outcomes {
				if i == 0 && o.Verdict != "OK" {
					aborted++
				} else if i > 0 {
					valid++
				}
			}
		}
	}
	return map[string]any{"histories": n, "first_calls_that_aborted": aborted, "valid_calls_after_them": valid, "of_which_failed": failed,
		"abort_kinds": "empty source, malformed edge, panic in Monitor.Log at event j, runtime.Goexit in Monitor.Log at event j"}
}

// oracleAfterAbort: job = history [aborting call, valid call(s)]; every call after the first must return.
func (cx *Ctx) oracleAfterAbort(rs []JobResult) (bool, string, string, string) {
	if len(rs) != 1 || rs[0].Res == nil {
		return false, "", "", ""
	}
	jr := rs[0]
	if jr.Res.Error != "" {
		cx.trouble("history job: %s", jr.Res.Error)
		return false, "", "", ""
	}
	for i, o := range jr.Res.Outcomes {
		if i == 0 || o.Verdict == "OK" {
			continue
		}
		if o.Verdict == "HARNESS" {
			cx.trouble("harness verdict: %s", o.Detail)
			return false, "", "", ""
		}
		c := jr.Job.Calls[i]
		first := jr.Job.Calls[0]
		how := "an empty source"
		switch {
		case first.Monitor.Fault != "":
			how = fmt.Sprintf("%s raised by its monitor at event %d", first.Monitor.Fault, first.Monitor.At)
		case len(first.Edges) > 0:
			how = "a malformed edge"
		}
		key := "after-abort | " + failKey(o)
		what := fmt.Sprintf("after an earlier call of the same process had left Layout through %s (%s), the valid call Layout(%s; %s) %s",
			how, jr.Res.Outcomes[0].Verdict, edgesText(c.Edges), optsText(c.Opts), describe(o))
		return true, key, what, fpOf(key)
	}
	return false, "", "", ""
}
