package main

import (
	"crypto/sha256"
	"encoding/hex"
	"fmt"
	"regexp"
	"strings"

	"github.com/nulab/autog/zzverif/spec"
)

func fpOf(parts ...string) string {
	h := sha256.Sum256([]byte(strings.Join(parts, "\x00")))
	return hex.EncodeToString(h[:8])
}

// fatalOutcome turns a dead / timed-out worker into an outcome.
func fatalOutcome(jr JobResult) spec.Outcome {
	if jr.Timeout {
		return spec.Outcome{Verdict: "TIMEOUT", Detail: "wall-clock watchdog", Hash: "TIMEOUT"}
	}
	class, site := fatalClass(jr.Fatal)
	if strings.Contains(class, "all goroutines are asleep") {
		// the Go runtime's own deadlock detector: every goroutine of the worker is parked, i.e. a simulated task is blocked
		// in an operation the simulator does not own (select without default, sync.Cond, ...). That is the simulator's
		// limit, not a verdict about the library.
		return spec.Outcome{Verdict: "HARNESS", Detail: "the library blocked in an operation the simulator does not own (" + class + " in " + site + "); see coverage.seams.unowned"}
	}
	return spec.Outcome{Verdict: "FATAL", Detail: class, Site: site, Hash: fpOf("FATAL", class, site)}
}

// multiOutcomes returns one outcome per resolution of a multi job, splitting the job if the worker died.
func (cx *Ctx) multiOutcomes(p *Pool, jr JobResult) []spec.Outcome {
	if jr.WallCap {
		cx.WallCapHit = true
		return nil
	}
	if jr.Res != nil && jr.Res.Error == "" && len(jr.Res.Outcomes) == len(jr.Job.Res) {
		return jr.Res.Outcomes
	}
	if jr.Res != nil && jr.Res.Error != "" {
		cx.trouble("worker reported: %s", jr.Res.Error)
		return nil
	}
	// the worker died or hung somewhere in the job: run each resolution on its own
	var jobs []*spec.Job
	for i := range jr.Job.Res {
		j := *jr.Job
		j.Res = []spec.Resolution{jr.Job.Res[i]}
		jobs = append(jobs, &j)
	}
	one := *p
	one.N = 4
	rs := one.Run(jobs, nil)
	out := make([]spec.Outcome, len(rs))
	for i, r := range rs {
		if r.Res != nil && len(r.Res.Outcomes) == 1 {
			out[i] = r.Res.Outcomes[0]
		} else if r.Res != nil && r.Res.Error != "" {
			cx.trouble("worker reported: %s", r.Res.Error)
			return nil
		} else {
			out[i] = fatalOutcome(r)
		}
	}
	return out
}

var digits = regexp.MustCompile(`-?[0-9]+`)

func normDetail(s string) string {
	s = digits.ReplaceAllString(s, "N")
	if len(s) > 120 {
		s = s[:120]
	}
	return s
}

func failKey(o spec.Outcome) string {
	switch o.Verdict {
	case "PANIC":
		return fmt.Sprintf("panic | %s | %s", o.Site, normDetail(o.Detail))
	case "BUDGET":
		// loop / ticks / bytes are three meters of the same thing (work that does not end in time); which one
		// trips first depends on the input's size, so they form one class per site. depth is runaway recursion.
		if o.Detail == "depth" {
			return "budget(depth) | " + o.Site
		}
		return "budget(time/memory) | " + o.Site
	case "FATAL":
		return fmt.Sprintf("fatal | %s | %s", o.Site, normDetail(o.Detail))
	case "DEADLOCK":
		return "deadlock | " + normDetail(o.Detail)
	case "TIMEOUT":
		return "timeout"
	}
	return strings.ToLower(o.Verdict)
}

func describe(o spec.Outcome) string {
	switch o.Verdict {
	case "OK":
		return "returned (result " + o.Hash + ")"
	case "PANIC":
		return fmt.Sprintf("panicked in %s: %s", o.Site, o.Detail)
	case "BUDGET":
		return fmt.Sprintf("exceeded the %s budget in %s", o.Detail, o.Site)
	case "FATAL":
		return fmt.Sprintf("killed the process (%s) in %s", o.Detail, o.Site)
	}
	return o.Verdict + " " + o.Detail
}

func firstDiff(a, b string) string {
	la, lb := strings.Split(a, "\n"), strings.Split(b, "\n")
	for i := 0; i < len(la) || i < len(lb); i++ {
		var x, y string
		if i < len(la) {
			x = la[i]
		}
		if i < len(lb) {
			y = lb[i]
		}
		if x != y {
			if len(x) > 160 {
				x = x[:160] + "..."
			}
			if len(y) > 160 {
				y = y[:160] + "..."
			}
			return fmt.Sprintf("first difference at output line %d: %q vs %q", i+1, x, y)
		}
	}
	return ""
}

// oracle evaluates a named oracle over job results. It is used both at discovery and at replay.
func (cx *Ctx) oracle(name string, rs []JobResult) (violated bool, key, what, fingerprint string) {
	switch name {
	case "c07.resolutions":
		return cx.oracleResolutions(rs)
	case "c07.history":
		return cx.oracleHistory(rs)
	case "c07.args":
		return cx.oracleArgs(rs)
	case "c07.real":
		return cx.oracleReal(rs)
	case "c07.env":
		return cx.oracleEnv(rs)
	case "c07.process":
		return cx.oracleProcess(rs)
	case "c01.returns":
		return cx.oracleReturns(rs)
	case "c01.afterabort":
		return cx.oracleAfterAbort(rs)
	case "c15.isolation", "c15.race", "c15.sim":
		return cx.oracleC15(rs)
	case "c15.realrace":
		return cx.oracleRealRace(rs)
	case "c18.history":
		return cx.oracleC18(rs)
	}
	cx.trouble("unknown oracle %q", name)
	return
}

// c07.resolutions: one multi job; every resolution must give the outcome of resolution 0.
func (cx *Ctx) oracleResolutions(rs []JobResult) (bool, string, string, string) {
	if len(rs) != 1 {
		cx.trouble("c07.resolutions expects one job")
		return false, "", "", ""
	}
	ocs := cx.multiOutcomes(cx.sim, rs[0])
	if ocs == nil {
		return false, "", "", ""
	}
	for _, o := range ocs {
		if o.Verdict == "HARNESS" {
			cx.trouble("harness verdict: %s", o.Detail)
			return false, "", "", ""
		}
		if o.Verdict == "TIMEOUT" {
			cx.trouble("wall-clock watchdog fired on a simulated run")
			return false, "", "", ""
		}
	}
	job := rs[0].Job
	// A run that exhausts its simulated-time budget has no result to compare: whether it hangs is C01's
	// question, and a budget hit under one order but not another may be a legitimately slower order.
	if ocs[0].Verdict == "BUDGET" {
		return false, "", "", ""
	}
	for j := 1; j < len(ocs); j++ {
		if ocs[j].Verdict == "BUDGET" || (ocs[j].Hash == ocs[0].Hash && ocs[j].Verdict == ocs[0].Verdict) {
			continue
		}
		r0, rj := job.Res[0], job.Res[j]
		key := "resolution-dependent"
		switch {
		case rj.StackDepth != r0.StackDepth && rj.Adv == r0.Adv && rj.AdvSeed == r0.AdvSeed && rj.T0 == r0.T0 && rj.Rate == r0.Rate && rj.Entropy == r0.Entropy && len(rj.Overrides) == 0:
			key = "stack-depth-dependent"
		case rj.Adv == "overrides" && len(rj.Overrides) >= 1 && sameSite(rj.Overrides):
			key = "order-dependent | " + rj.Overrides[0].Site
		case (rj.Adv == r0.Adv || rj.Adv == "identity" || rj.Adv == "") && (rj.T0 != r0.T0 || rj.Rate != r0.Rate) && rj.Entropy == r0.Entropy:
			key = "clock-dependent"
		case (rj.Adv == r0.Adv || rj.Adv == "identity" || rj.Adv == "") && rj.Entropy != r0.Entropy && rj.T0 == r0.T0 && rj.Rate == r0.Rate:
			key = "entropy-dependent"
		case (rj.Adv == r0.Adv || rj.Adv == "identity" || rj.Adv == ""):
			key = "clock-or-entropy-dependent"
		}
		what := fmt.Sprintf("Layout(%s; %s) is not a function of its arguments: under resolution 0 (%s) it %s, under resolution %d (%s) it %s",
			edgesText(job.Calls[0].Edges), optsText(job.Calls[0].Opts), resText(r0), describe(ocs[0]), j, resText(rj), describe(ocs[j]))
		if ocs[0].Full != "" && ocs[j].Full != "" {
			what += "; " + firstDiff(ocs[0].Full, ocs[j].Full)
		}
		return true, key, what, fpOf(ocs[0].Hash, ocs[j].Hash)
	}
	return false, "", "", ""
}

func sameSite(ov []spec.Override) bool {
	for _, o := range ov {
		if o.Site != ov[0].Site {
			return false
		}
	}
	return true
}

func resText(r spec.Resolution) string {
	s := "map order: " + r.Adv
	if r.Adv == "" {
		s = "map order: identity"
	}
	if r.StackDepth > 0 {
		s = fmt.Sprintf("called from %d frames deep; ", r.StackDepth) + s
	}
	if r.Adv == "seeded" || r.Adv == "rotate" {
		s += fmt.Sprintf("(seed %d; the same seed also drives sync.Pool reuse, fake addresses and the schedule of goroutines started by the call)", r.AdvSeed)
	}
	if r.Adv == "overrides" {
		var p []string
		for _, o := range r.Overrides {
			x := fmt.Sprintf("%s#%d:%s", o.Site, o.Occ, o.Kind)
			if o.Kind == "rotate" || o.Kind == "swap" {
				x += fmt.Sprintf("(%d)", o.Arg)
			}
			if o.Kind == "perm" {
				x += fmt.Sprint(o.Perm)
			}
			p = append(p, x)
		}
		s = "map order: " + strings.Join(p, ", ")
	}
	if r.T0 != 0 {
		s += fmt.Sprintf(", clock T0=%d", r.T0)
	}
	if r.Rate != 0 {
		s += fmt.Sprintf(", %d ns per tick", r.Rate)
	}
	if r.Entropy != 0 {
		s += fmt.Sprintf(", entropy=%d", r.Entropy)
	}
	return s
}

// c07.args: any outcome reporting a modified argument
func (cx *Ctx) oracleArgs(rs []JobResult) (bool, string, string, string) {
	for _, r := range rs {
		if r.Res == nil {
			continue
		}
		for i, o := range append(append([]spec.Outcome{}, r.Res.Outcomes...), r.Res.Solo...) {
			if o.ArgsMutated != "" {
				ci := 0
				if r.Job.Kind != "multi" && i < len(r.Job.Calls) {
					ci = i
				}
				c := r.Job.Calls[ci]
				what := "edge list"
				if strings.Contains(o.ArgsMutated, "size map") {
					what = "size map"
				}
				return true, "argument-mutated | " + what,
					fmt.Sprintf("Layout(%s; %s) modified its caller-owned arguments: %s", edgesText(c.Edges), optsText(c.Opts), o.ArgsMutated),
					fpOf(o.ArgsMutated)
			}
		}
	}
	return false, "", "", ""
}

// c07.history: job 0 is a history (one process, several calls); jobs 1..n run call i alone in a fresh process.
func (cx *Ctx) oracleHistory(rs []JobResult) (bool, string, string, string) {
	if len(rs) < 2 {
		cx.trouble("c07.history expects a history job and reference jobs")
		return false, "", "", ""
	}
	h := rs[0]
	if h.Res == nil || h.Res.Error != "" {
		if h.Res != nil {
			cx.trouble("history job: %s", h.Res.Error)
		}
		// a dying history job is C01's business, not a history dependence
		return false, "", "", ""
	}
	for i, o := range h.Res.Outcomes {
		if o.Verdict == "HARNESS" {
			cx.trouble("harness verdict: %s", o.Detail)
			return false, "", "", ""
		}
		if i+1 >= len(rs) {
			break
		}
		ref := rs[i+1]
		if ref.Res == nil || len(ref.Res.Outcomes) != 1 {
			continue
		}
		ro := ref.Res.Outcomes[0]
		if ro.Hash != o.Hash || ro.Verdict != o.Verdict {
			c := sameAsResolved(h.Job.Calls, i)
			what := fmt.Sprintf("call %d of a %d-call history, Layout(%s; %s), %s, but the same call alone in a fresh process %s",
				i, len(h.Job.Calls), edgesText(c.Edges), optsText(c.Opts), describe(o), describe(ro))
			if o.Full != "" && ro.Full != "" {
				what += "; " + firstDiff(ro.Full, o.Full)
			}
			return true, "history-dependent", what, fpOf(o.Hash, ro.Hash)
		}
	}
	return false, "", "", ""
}

// c07.real: un-instrumented library, repeated calls in one process and across processes
func (cx *Ctx) oracleReal(rs []JobResult) (bool, string, string, string) {
	var base *spec.Result
	for _, r := range rs {
		if r.Res == nil || r.Res.Error != "" {
			continue
		}
		if len(r.Res.Outcomes) > 0 {
			o := r.Res.Outcomes[0]
			return true, "real-runtime-nondeterministic", "un-instrumented library, repeated identical calls in one process differ: " + o.Detail, fpOf("inproc")
		}
		if base == nil {
			base = r.Res
			continue
		}
		for i := range r.Res.Solo {
			if i < len(base.Solo) && r.Res.Solo[i].Hash != base.Solo[i].Hash {
				c := r.Job.Calls[i]
				return true, "real-runtime-nondeterministic", fmt.Sprintf("un-instrumented library: Layout(%s; %s) gave %s in one process and %s in another",
					edgesText(c.Edges), optsText(c.Opts), describe(base.Solo[i]), describe(r.Res.Solo[i])), fpOf("xproc")
			}
		}
	}
	return false, "", "", ""
}

// c01.returns: a multi job; every outcome must be OK
func (cx *Ctx) oracleReturns(rs []JobResult) (bool, string, string, string) {
	if len(rs) != 1 {
		cx.trouble("c01.returns expects one job")
		return false, "", "", ""
	}
	ocs := cx.multiOutcomes(cx.sim, rs[0])
	if ocs == nil {
		return false, "", "", ""
	}
	job := rs[0].Job
	for j, o := range ocs {
		switch o.Verdict {
		case "OK":
			continue
		case "HARNESS":
			cx.trouble("harness verdict: %s", o.Detail)
			return false, "", "", ""
		case "TIMEOUT":
			cx.trouble("wall-clock watchdog fired on a simulated run (tick budget not exhausted): %s", edgesText(job.Calls[0].Edges))
			return false, "", "", ""
		}
		what := fmt.Sprintf("Layout(%s; %s) under %s %s", edgesText(job.Calls[0].Edges), optsText(job.Calls[0].Opts), resText(job.Res[j]), describe(o))
		if o.Stack != "" {
			what += " [" + o.Stack + "]"
		}
		return true, failKey(o), what, fpOf(o.Verdict, o.Site, o.Detail)
	}
	return false, "", "", ""
}

// c07.env: the same multi job (identity resolution) in fresh worker processes that differ only in their simulated
// machine / environment at package-initialisation time; the outcomes must be identical.
func (cx *Ctx) oracleEnv(rs []JobResult) (bool, string, string, string) {
	var base *spec.Outcome
	for i, r := range rs {
		if r.Res == nil || r.Res.Error != "" || len(r.Res.Outcomes) == 0 {
			continue
		}
		o := r.Res.Outcomes[0]
		if o.Verdict == "HARNESS" {
			cx.trouble("harness verdict: %s", o.Detail)
			return false, "", "", ""
		}
		if o.Verdict == "BUDGET" {
			continue
		}
		if base == nil {
			oc := o
			base = &oc
			continue
		}
		if o.Hash != base.Hash || o.Verdict != base.Verdict {
			c := r.Job.Calls[0]
			what := fmt.Sprintf("Layout(%s; %s) %s in a process on the canonical simulated machine but %s in process %d, which differs only in what the machine and the environment answer at package initialisation (CPU count, environment variables, pid, host name)",
				edgesText(c.Edges), optsText(c.Opts), describe(*base), describe(o), i)
			if o.Full != "" && base.Full != "" {
				what += "; " + firstDiff(base.Full, o.Full)
			}
			return true, "environment-dependent", what, fpOf(base.Hash, o.Hash)
		}
	}
	return false, "", "", ""
}

// c07.process: the same multi job (one resolution) in several fresh, IDENTICAL simulated worker processes - same
// simulated machine, same choices. Whatever differs between them comes from a source of nondeterminism that the
// simulator does not own (coverage.seams.unowned: hash/maphash seeds, crypto/rand, %p, GC-dependent caches, ...) and that
// differs per process: "in the same process or in a fresh one" is violated. The simulator itself is deterministic on
// the unchanged tree (determinism self-test of every run), so the difference is the library's.
func (cx *Ctx) oracleProcess(rs []JobResult) (bool, string, string, string) {
	var base *spec.Outcome
	for i, r := range rs {
		if r.Res == nil || r.Res.Error != "" || len(r.Res.Outcomes) == 0 {
			continue
		}
		o := r.Res.Outcomes[0]
		if o.Verdict == "HARNESS" || o.Verdict == "BUDGET" || o.Verdict == "FATAL" {
			continue
		}
		if base == nil {
			oc := o
			base = &oc
			continue
		}
		if o.Hash != base.Hash || o.Verdict != base.Verdict {
			c := r.Job.Calls[0]
			what := fmt.Sprintf("Layout(%s; %s) %s in one fresh process but %s in fresh process %d, although both are identical simulated executions (same map orders, clock, entropy, schedule, machine): the result depends on a per-process source of nondeterminism the simulator does not own (see coverage.seams.unowned)",
				edgesText(c.Edges), optsText(c.Opts), describe(*base), describe(o), i)
			if o.Full != "" && base.Full != "" {
				what += "; " + firstDiff(base.Full, o.Full)
			}
			return true, "process-dependent", what, fpOf("process-dependent")
		}
	}
	return false, "", "", ""
}
