package main

import (
	"encoding/json"
	"fmt"
	"sort"
	"strings"
	"time"

	"github.com/nulab/autog/zzverif/spec"
)

// C18 — a monitor only observes, and only its own call.

// event-rich inputs: self-loops, single-node components, several layers, spline routing
func c18Graph(r *rng) [][]string {
	gc := genCfg{multiPct: 45, nastyPct: 0, bigPct: 0}
	es, _ := genGraph(r, gc)
	if len(es) > 14 {
		es = es[:14]
	}
	n := nodeCount(es)
	for k := r.intn(3); k > 0; k-- { // self-loops emit pre- and post-processing events
		a := nodeIDs(es)[r.intn(n)]
		es = append(es, []string{a, a})
	}
	if r.chance(40) { // an isolated self-looped node: phases 1, 3 and 5 emit "skip"
		es = append(es, []string{"solo", "solo"})
	}
	shuffleEdges(r, es)
	return es
}

func c18Options(r *rng, es [][]string) spec.Options {
	var o spec.Options
	o.P1 = pick(r, "", "greedy", "dfs")
	o.P2 = pick(r, "", "ns", "longestpath")
	o.P4 = pick(r, "", "sinkcoloring", "bk", "bk", "valign", "packright", "ns", "ns")
	o.P5 = pick(r, "", "polyline", "splines", "splines", "ortho", "straight")
	if r.chance(60) {
		o.FixedSize = &[2]float64{float64(pick(r, 10, 40, 100)), float64(pick(r, 10, 40))}
	}
	return o
}

func (cx *Ctx) c18Call(r *rng) spec.Call {
	es := c18Graph(r)
	return spec.Call{Edges: es, Opts: c18Options(r, es)}
}

func c18Probe(r *rng) spec.Call {
	// monitor-less call on an event-rich graph
	es := [][]string{{"p", "p"}, {"p", "q"}, {"q", "r"}, {"p", "r"}, {"q", "q"}, {"lone", "lone"}, {"r", "s"}, {"p", "s"}}
	if r.chance(50) {
		es = append(es, []string{"s", "p"})
	}
	// any positioner / layerer / cycle breaker: state parked by one algorithm is picked up again by the same one
	return spec.Call{Edges: es, Opts: spec.Options{P5: pick(r, "", "polyline", "ortho"), P4: pick(r, "", "", "ns", "bk", "valign", "packright", "sinkcoloring"),
		P2: pick(r, "", "", "longestpath", "ns"), P1: pick(r, "", "", "dfs", "greedy")}}
}

func (cx *Ctx) c18History(r *rng) []spec.Call {
	n := r.between(2, 7)
	var calls []spec.Call
	sharedUsed := 0
	for i := 0; i < n; i++ {
		c := cx.c18Call(r)
		switch d := r.intn(100); {
		case d < 25: // no monitor
		case d < 50:
			c.Monitor = spec.MonitorSpec{Role: "record"}
		case d < 60:
			c.Monitor = spec.MonitorSpec{Role: "shared:S"}
			sharedUsed++
		case d < 70: // F1
			c.Monitor = spec.MonitorSpec{Role: "record", Fault: "panic", At: r.between(1, 10)}
		case d < 80: // F2
			c.Monitor = spec.MonitorSpec{Role: "record", Fault: "goexit", At: r.between(1, 10)}
		case d < 87: // F6 re-entrant Layout from inside the callback
			in := cx.c18Call(r)
			if r.chance(30) {
				in = c18Probe(r)
			}
			in.Opts.P5 = pick(r, "", "polyline", "ortho")
			c.Monitor = spec.MonitorSpec{Role: "record", Fault: "nested", At: r.between(1, 6), Nested: &in, NestedMon: pick(r, "record", "record", "", "same")}
		case d < 89: // F3 empty source, with a monitor installed
			c.Edges = [][]string{}
			c.Monitor = spec.MonitorSpec{Role: "record"}
		case d < 94: // F4 malformed edge at index i
			k := r.intn(len(c.Edges))
			if r.chance(50) {
				c.Edges[k] = []string{c.Edges[k][0]}
			} else {
				c.Edges[k] = []string{c.Edges[k][0], c.Edges[k][1], "x"}
			}
			c.Monitor = spec.MonitorSpec{Role: "record"}
		default: // F5 internal panic at an arbitrary tick
			c.Monitor = spec.MonitorSpec{Role: "record"}
			c.PanicAtTick = uint64(r.between(1, 3000))
		}
		calls = append(calls, c)
		if c.Monitor.Fault != "" || c.PanicAtTick > 0 || len(c.Edges) == 0 {
			if r.chance(70) {
				calls = append(calls, c18Probe(r))
			}
		}
	}
	if sharedUsed == 1 && r.chance(70) {
		c := cx.c18Call(r)
		c.Monitor = spec.MonitorSpec{Role: "shared:S"}
		calls = append(calls, c)
	}
	calls = append(calls, c18Probe(r))
	return calls
}

func monitorName(calls []spec.Call, i int) string {
	m := calls[i].Monitor
	switch {
	case m.Role == "record":
		return fmt.Sprintf("M%d", i)
	case strings.HasPrefix(m.Role, "shared:"):
		return m.Role
	}
	return ""
}

// oracleC18 checks interval containment (a, a', b) over one history job, and passivity (c) against
// optional reference jobs: job k>=1 (if present) is call k-1 without a monitor.
func (cx *Ctx) oracleC18(rs []JobResult) (bool, string, string, string) {
	if len(rs) == 0 {
		return false, "", "", ""
	}
	h := rs[0]
	if h.Res == nil {
		if h.Fatal != "" || h.Timeout {
			return false, "", "", "" // a dying process is C01's business
		}
		return false, "", "", ""
	}
	if h.Res.Error != "" {
		cx.trouble("history job: %s", h.Res.Error)
		return false, "", "", ""
	}
	calls := h.Job.Calls
	ocs := h.Res.Outcomes
	for _, o := range ocs {
		if o.Verdict == "HARNESS" {
			cx.trouble("harness verdict: %s", o.Detail)
			return false, "", "", ""
		}
	}
	// intervals per monitor
	type iv struct {
		a, b uint64
		call int
	}
	owners := map[string][]iv{}
	for i := range calls {
		if i >= len(ocs) {
			break
		}
		if name := monitorName(calls, i); name != "" {
			owners[name] = append(owners[name], iv{ocs[i].Invoke, ocs[i].End, i})
		}
	}
	nestedOwner := map[string]bool{}
	for _, nr := range h.Res.Nested {
		if nr.Monitor != "" {
			owners[nr.Monitor] = append(owners[nr.Monitor], iv{nr.Invoke, nr.End, -2 - nr.Parent})
			nestedOwner[nr.Monitor] = true
		}
	}
	endKind := func(i int) string {
		if i < 0 {
			return "(a re-entrant call made from a monitor callback) returned"
		}
		switch ocs[i].Verdict {
		case "OK":
			return "returned"
		case "GOEXIT":
			return "ended with runtime.Goexit"
		default:
			return "ended in a panic"
		}
	}
	lastEnd := uint64(0)
	if n := len(ocs); n > 0 && n < len(calls) {
		lastEnd = ocs[n-1].End // the history stopped early (process-fatal call): nothing after it is judged
	}
	for _, ev := range h.Res.Events {
		if lastEnd != 0 && ev.Seq > lastEnd {
			continue
		}
		inside := false
		for _, v := range owners[ev.Monitor] {
			if v.a < ev.Seq && (v.b == 0 || ev.Seq < v.b) {
				inside = true
			}
		}
		if inside {
			continue
		}
		// classify
		when := "outside any call"
		var owner int = -1
		for _, v := range owners[ev.Monitor] {
			if v.b != 0 && ev.Seq > v.b {
				owner = v.call
			}
		}
		if owner >= 0 {
			when = "after its call " + endKind(owner)
			if owner < 0 {
				when += fmt.Sprintf(", while the outer call %d went on", -2-owner)
			} else if ev.Call >= 0 && ev.Call != owner {
				when += fmt.Sprintf(", during later call %d", ev.Call)
			}
		}
		key := "event-outside-call | after call " + func() string {
			if owner <= -2 {
				return "nested in a callback returned"
			}
			if owner < 0 {
				return "unknown"
			}
			return strings.TrimPrefix(endKind(owner), "ended ")
		}()
		what := fmt.Sprintf("monitor %s received event (phase %d, %s, %q) %s; history of %d calls: %s", ev.Monitor, ev.Phase, ev.Alg, ev.Key, when, len(calls), historyText(calls, ocs))
		return true, key, what, fpOf(key, ev.Monitor, fmt.Sprint(ev.Seq))
	}
	// (d) only its OWN call: two calls of the history with identical arguments, each with a fresh recording monitor of its
	// own, no injected fault, both returned - the two monitors must have seen the same sequence of (phase, algorithm, key).
	// A monitor that saw more than the monitor of the very same call saw something that was not produced by its call
	// (events of an earlier, aborted call queued and flushed late are delivered INSIDE the interval of the next monitored
	// call, so interval containment cannot see them).
	if lastEnd == 0 {
		sig := func(c spec.Call) string {
			b, _ := json.Marshal([]any{c.Edges, c.Opts})
			return string(b)
		}
		stream := func(name string) []string {
			var out []string
			for _, ev := range h.Res.Events {
				if ev.Monitor == name {
					out = append(out, fmt.Sprintf("%d/%s/%s", ev.Phase, ev.Alg, ev.Key))
				}
			}
			return out
		}
		plain := func(i int) bool {
			c := calls[i]
			return i < len(ocs) && c.Monitor.Role == "record" && c.Monitor.Fault == "" && c.PanicAtTick == 0 && ocs[i].Verdict == "OK" && c.Opts.P1 != "greedy-random"
		}
		for i := range calls {
			if !plain(i) {
				continue
			}
			for j := i + 1; j < len(calls); j++ {
				if !plain(j) || sig(calls[i]) != sig(calls[j]) {
					continue
				}
				a, b := stream(monitorName(calls, i)), stream(monitorName(calls, j))
				if strings.Join(a, "\n") == strings.Join(b, "\n") {
					continue
				}
				d := 0
				for d < len(a) && d < len(b) && a[d] == b[d] {
					d++
				}
				at := func(x []string) string {
					if d < len(x) {
						return x[d]
					}
					return "(end of stream)"
				}
				what := fmt.Sprintf("calls %d and %d of the history are the same call (same source, same options), each with a recording monitor of its own, both returned; monitor M%d received %d events, monitor M%d received %d; first difference at event %d: %s vs %s - one of them received events its own call did not produce; history of %d calls: %s",
					i, j, i, len(a), j, len(b), d+1, at(a), at(b), len(calls), historyText(calls, ocs))
				return true, "events-of-another-call | identical calls, different event streams", what, fpOf("streams", fmt.Sprint(len(a)), fmt.Sprint(len(b)))
			}
		}
	}
	// passivity
	for k := 1; k < len(rs); k++ {
		i := k - 1
		ref := rs[k]
		if ref.Res == nil || len(ref.Res.Outcomes) != 1 || i >= len(ocs) || ref.Job == nil {
			continue
		}
		ro := ref.Res.Outcomes[0]
		if ro.Verdict == "BUDGET" || ocs[i].Verdict == "BUDGET" {
			continue
		}
		if ro.Hash != ocs[i].Hash || ro.Verdict != ocs[i].Verdict {
			c := calls[i]
			what := fmt.Sprintf("supplying a monitor changed the result: Layout(%s; %s) with a recording monitor %s, without a monitor it %s",
				edgesText(c.Edges), optsText(c.Opts), describe(ocs[i]), describe(ro))
			if ro.Full != "" && ocs[i].Full != "" {
				what += "; " + firstDiff(ro.Full, ocs[i].Full)
			}
			return true, "monitor-changes-result", what, fpOf(ro.Hash, ocs[i].Hash)
		}
	}
	return false, "", "", ""
}

func historyText(calls []spec.Call, ocs []spec.Outcome) string {
	var p []string
	for i, c := range calls {
		s := fmt.Sprintf("#%d ", i)
		switch {
		case len(c.Edges) == 0:
			s += "empty source"
		default:
			s += fmt.Sprintf("%d edges", len(c.Edges))
		}
		if c.Monitor.Role != "" {
			s += " mon=" + monitorName(calls, i)
		}
		if c.Monitor.Fault != "" {
			s += fmt.Sprintf(" fault=%s@event%d", c.Monitor.Fault, c.Monitor.At)
			if c.Monitor.Fault == "nested" {
				s += "(inner monitor: " + map[string]string{"": "none", "record": "fresh", "same": "same"}[c.Monitor.NestedMon] + ")"
			}
		}
		if c.PanicAtTick > 0 {
			s += fmt.Sprintf(" panic@tick%d", c.PanicAtTick)
		}
		if i < len(ocs) {
			s += " -> " + ocs[i].Verdict
		}
		p = append(p, s)
	}
	return strings.Join(p, "; ")
}

func (cx *Ctx) c18Job(id int, calls []spec.Call, full bool) *spec.Job {
	return &spec.Job{ID: id, Kind: "history", Calls: calls, Res: []spec.Resolution{{Adv: "identity"}}, Budgets: cx.Budgets, WantFull: full}
}

// passivity references for a history: one job per call that carries a fault-free recording monitor
func (cx *Ctx) c18Refs(calls []spec.Call, full bool) []*spec.Job {
	refs := make([]*spec.Job, len(calls))
	for i, c := range calls {
		if c.Monitor.Role == "" || c.Monitor.Fault != "" || c.PanicAtTick > 0 || len(c.Edges) == 0 {
			continue
		}
		ok := true
		for _, e := range c.Edges {
			if len(e) != 2 {
				ok = false
			}
		}
		if !ok {
			continue
		}
		d := c
		d.Monitor = spec.MonitorSpec{}
		refs[i] = &spec.Job{ID: i + 1, Kind: "multi", Calls: []spec.Call{d}, Res: []spec.Resolution{{Adv: "identity"}}, Budgets: cx.Budgets, WantFull: full}
	}
	return refs
}

func (cx *Ctx) c18Eval(calls []spec.Call, full bool) (bool, string, string, string, *ReplayFile) {
	job := cx.c18Job(0, calls, full)
	rj := []ReplayJob{{Pool: "simfresh", Job: *job}}
	for _, ref := range cx.c18Refs(calls, full) {
		if ref == nil {
			rj = append(rj, ReplayJob{Pool: "sim", Job: spec.Job{Kind: "multi", Calls: []spec.Call{{Edges: [][]string{{"a", "b"}}}}, Res: nil}})
			continue
		}
		rj = append(rj, ReplayJob{Pool: "sim", Job: *ref})
	}
	rf := &ReplayFile{Property: "C18", Oracle: "c18.history", Jobs: rj}
	v, key, what, fp := cx.evalReplay(rf)
	rf.Key, rf.What, rf.Expect = key, what, fp
	return v, key, what, fp, rf
}

func (cx *Ctx) runC18() {
	nHist := cx.count(1500, 120000)
	nBase := cx.count(25, 600)
	cx.Budgets.Frame = 2_000_000
	cx.Budgets.Ticks = 50_000_000
	known := cx.replayKnown()
	corpusN := cx.runCorpus()
	r := rng{s: mix(cx.Seed, 0xC18)}

	// ---- stage A: random histories
	var hjobs []*spec.Job
	for i := 0; i < nHist; i++ {
		hjobs = append(hjobs, cx.c18Job(i, cx.c18History(&r), false))
	}
	// ---- stage B: systematic fault positions. First measure the base calls.
	var bases []spec.Call
	var mjobs []*spec.Job
	for i := 0; i < nBase; i++ {
		c := cx.c18Call(&r)
		c.Monitor = spec.MonitorSpec{Role: "record"}
		bases = append(bases, c)
		mjobs = append(mjobs, cx.c18Job(i, []spec.Call{c}, false))
	}
	cx.phase("C18: measuring base calls")
	mres := cx.simFresh.Run(mjobs, nil)
	enumerated := 0
	for i, jr := range mres {
		if jr.Res == nil || len(jr.Res.Outcomes) != 1 {
			continue
		}
		o := jr.Res.Outcomes[0]
		nEv := o.Events
		// F1 / F2 at every event position (exhaustive for this call)
		for j := 1; j <= nEv && j <= 60; j++ {
			for _, kind := range []string{"panic", "goexit"} {
				c := bases[i]
				c.Monitor = spec.MonitorSpec{Role: "record", Fault: kind, At: j}
				after := bases[i]
				after.Monitor = spec.MonitorSpec{Role: "record"}
				if j%2 == 0 {
					// the same call first, un-faulted, with a monitor of its own: its event stream is the yardstick for the
					// monitor of the identical call made after the aborted one (oracle d)
					hjobs = append(hjobs, cx.c18Job(len(hjobs), []spec.Call{after, c, c18Probe(&r), after, c18Probe(&r)}, false))
				} else {
					hjobs = append(hjobs, cx.c18Job(len(hjobs), []spec.Call{c, c18Probe(&r), after, c18Probe(&r)}, false))
				}
				enumerated++
			}
		}
		// F5 stratified over the call's simulated time
		if o.Ticks > 2 {
			for q := 0; q < 10; q++ {
				c := bases[i]
				c.Monitor = spec.MonitorSpec{Role: "record"}
				c.PanicAtTick = 1 + o.Ticks*uint64(q)/10 + uint64(r.intn(int(o.Ticks/10+1)))
				hjobs = append(hjobs, cx.c18Job(len(hjobs), []spec.Call{c, c18Probe(&r)}, false))
				enumerated++
			}
		}
	}
	cx.phase(fmt.Sprintf("C18: %d histories (%d random, %d enumerated fault positions)", len(hjobs), nHist, enumerated))
	// every history runs in a fresh worker process: the process history is exactly the history's calls
	hres := cx.simFresh.Run(hjobs, nil)
	// passivity references
	var refJobs []*spec.Job
	type rk struct{ h, c int }
	var refIdx []rk
	for hi, jr := range hres {
		if jr.Res == nil || hi >= nHist {
			continue
		}
		for ci, ref := range cx.c18Refs(jr.Job.Calls, false) {
			if ref != nil && (hi+ci)%3 == 0 {
				refJobs = append(refJobs, ref)
				refIdx = append(refIdx, rk{hi, ci})
			}
		}
	}
	cx.phase(fmt.Sprintf("C18: %d passivity references", len(refJobs)))
	rres := cx.simFresh.Run(refJobs, nil)
	refOf := map[rk]JobResult{}
	for k, rr := range rres {
		refOf[refIdx[k]] = rr
	}
	cx.phase("C18: analysing")

	ncalls, nevents, died := 0, 0, 0
	var simTicks uint64
	faults := map[string]int{}
	configured := map[string]int{}
	shapes := map[string]bool{}
	nontrivial := map[string]bool{}
	logSites := map[string]bool{}
	abortPhase := map[string]int{}
	endKinds := map[string]int{}
	passCompared := 0
	var samples []any
	for hi, jr := range hres {
		if jr.Timeout {
			cx.trouble("a history job was silent for %v: stuck outside the simulator's control (unowned blocking operation inside the library?)", cx.simFresh.Timeout)
			continue
		}
		if jr.Res == nil || jr.Res.Error != "" {
			if jr.Res != nil {
				cx.trouble("history job: %s", jr.Res.Error)
			}
			died++
			continue
		}
		calls := jr.Job.Calls
		ocs := jr.Res.Outcomes
		ncalls += len(ocs)
		nevents += len(jr.Res.Events)
		lastPhase := map[int]int{}
		for _, ev := range jr.Res.Events {
			logSites[fmt.Sprintf("%d/%s/%s", ev.Phase, ev.Alg, ev.Key)] = true
			lastPhase[ev.Call] = ev.Phase
		}
		var shape []string
		hasMonEvents, hasLater, fired := false, false, false
		for i, o := range ocs {
			simTicks += o.Ticks
			c := calls[i]
			s := "none"
			if c.Monitor.Role != "" {
				s = "mon"
				if strings.HasPrefix(c.Monitor.Role, "shared") {
					s = "shared"
				}
			}
			kind := ""
			switch {
			case c.Monitor.Fault == "panic":
				kind = "F1 panic in Log"
			case c.Monitor.Fault == "goexit":
				kind = "F2 Goexit in Log"
			case c.Monitor.Fault == "nested":
				kind = "F6 re-entrant Layout in Log"
			case len(c.Edges) == 0:
				kind = "F3 empty source"
			case c.PanicAtTick > 0:
				kind = "F5 panic at tick"
			default:
				for _, e := range c.Edges {
					if len(e) != 2 {
						kind = "F4 malformed edge"
					}
				}
			}
			if kind != "" {
				configured[kind]++
				did := o.FaultFired || (kind[:2] == "F3" && o.Verdict == "PANIC") || (kind[:2] == "F4" && o.Verdict == "PANIC")
				if did {
					faults[kind]++
					fired = true
					abortPhase[fmt.Sprintf("%s after last event of phase %d", kind[:2], lastPhase[i])]++
				}
				s += "+" + kind[:2]
				if did {
					s += fmt.Sprintf("@p%d", lastPhase[i])
				}
			} else if o.Verdict == "PANIC" {
				faults["internal panic of the library (not injected)"]++
				fired = true
				s += "+P"
			}
			endKinds[o.Verdict]++
			if c.Monitor.Role != "" && o.Events > 0 {
				hasMonEvents = true
				if i < len(ocs)-1 {
					hasLater = true
				}
			}
			shape = append(shape, s)
		}
		sk := strings.Join(shape, ",")
		shapes[sk] = true
		if (hasMonEvents && hasLater) || fired {
			nontrivial[sk] = true
		}
		if len(samples) < 4 && fired && hasMonEvents {
			samples = append(samples, map[string]any{"history": historyText(calls, ocs), "events": len(jr.Res.Events)})
		}
		set := []JobResult{jr}
		for ci := range calls {
			if rr, ok := refOf[rk{hi, ci}]; ok {
				set = append(set, rr)
				passCompared++
			} else {
				set = append(set, JobResult{})
			}
		}
		if v, key, what, _ := cx.oracleC18(set); v {
			if cx.hasViolation(key) || cx.isKnown(key) != nil {
				cx.report(key, what, nil)
				continue
			}
			cx.c18Shrink(calls, key)
		}
	}
	wall := time.Since(cx.Start).Seconds()
	cov := map[string]any{
		"evaluations":         len(hres),
		"distinct_nontrivial": len(nontrivial),
		"rule": "a case is a history: a sequence of 2-8 sequential Layout calls in one process, each with a role (no monitor | fresh recording monitor | shared monitor) and possibly a fault " +
			"(F1 panic / F2 runtime.Goexit inside Monitor.Log at the j-th event, F3 empty source, F4 malformed edge, F5 panic at simulated tick t, F6 a re-entrant Layout call made from inside Monitor.Log at the j-th event, with a fresh / the same / no monitor), followed by monitor-less probe calls on event-rich graphs. " +
			"Stage A draws histories from the seed; stage B enumerates, for a set of base calls, F1 and F2 at EVERY event position j=1..#events and F5 at 10 strata of the call's simulated time. " +
			"Oracles over the recorded history (global event sequence numbers): every event lies strictly inside the invoke..end interval of a call its monitor was passed to; a fault-free monitored call returns the result of its monitor-less twin. " +
			"distinct = history shape (sequence of role+fault kind+abort phase); non-trivial iff a monitored call emitted >=1 event and a later call exists, or a fault fired.",
		"samples":                      samples,
		"histories":                    len(hres),
		"histories_random":             nHist,
		"histories_enumerated_faults":  enumerated,
		"calls":                        ncalls,
		"events":                       nevents,
		"sim_ticks_total":              simTicks,
		"distinct_history_shapes":      len(shapes),
		"faults_fired":                 faults,
		"faults_configured":            configured,
		"abort_positions":              abortPhase,
		"call_end_kinds":               endKinds,
		"log_sites_reached":            sortedKeys(toAny(logSites)),
		"passivity_pairs_compared":     passCompared,
		"history_jobs_that_died":       died,
		"runs_per_hour":                int(float64(ncalls) / wall * 3600),
		"regression_corpus_specs":     corpusN,
		"known_findings_confirmed":     known,
		"violation_keys":               violKeys(cx),
	}
	cx.writeEvidence(cov, []string{
		"events are observed black-box through the Monitor interface only; nothing is demanded of event contents, the prefix state, or unexported variables",
		"calls of a history are sequential (concurrency with monitors is outside the statement)",
		"a panic injected at a simulated tick stands for any internal panic; runtime.Goexit inside Log is what t.FailNow does in a test's monitor",
		"seeded search plus exhaustive fault positions for a subset of calls: evidence, not proof",
	})
}

func toAny(m map[string]bool) map[string]any {
	o := map[string]any{}
	for k := range m {
		o[k] = true
	}
	return o
}

func (cx *Ctx) c18Shrink(calls []spec.Call, key string) {
	test := func(cs []spec.Call) bool {
		if len(cs) == 0 {
			return false
		}
		v, k, _, _, _ := cx.c18Eval(cs, false)
		return v && k == key
	}
	if !test(calls) {
		// needs the worker's earlier history: report the unshrunk history as found
		cx.trouble("a C18 violation (%s) did not reproduce in a fresh process", key)
		return
	}
	deadline := time.Now().Add(60 * time.Second)
	calls = ddmin(calls, test, deadline)
	// shrink each call's graph
	for i := range calls {
		if time.Now().After(deadline) {
			break
		}
		if len(calls[i].Edges) == 0 {
			continue
		}
		sc := shrinkCall(calls[i], func(t spec.Call) bool {
			cs := append([]spec.Call{}, calls...)
			cs[i] = t
			return test(cs)
		}, 15*time.Second)
		calls[i] = sc
	}
	v, k, what, _, rf := cx.c18Eval(calls, true)
	if !v || k != key {
		cx.trouble("a shrunk C18 violation did not reproduce (%s)", key)
		return
	}
	sort.Slice(rf.Jobs[1:], func(a, b int) bool { return false })
	cx.report(k, what, rf)
}
