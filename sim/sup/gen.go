package main

import (
	"fmt"
	"os"
	"sort"
	"strings"

	"github.com/nulab/autog/zzverif/spec"
)

// splitmix64; the only source of choices in the supervisor. One VERIF_SEED decides everything.
type rng struct{ s uint64 }

func (r *rng) next() uint64 {
	r.s += 0x9e3779b97f4a7c15
	z := r.s
	z = (z ^ (z >> 30)) * 0xbf58476d1ce4e5b9
	z = (z ^ (z >> 27)) * 0x94d049bb133111eb
	return z ^ (z >> 31)
}
func (r *rng) intn(n int) int {
	if n <= 1 {
		return 0
	}
	return int(r.next() % uint64(n))
}
func (r *rng) between(a, b int) int { return a + r.intn(b-a+1) }
func (r *rng) chance(pct int) bool  { return r.intn(100) < pct }
func mix(seed, label uint64) uint64 {
	r := rng{s: seed ^ (label * 0xd6e8feb86659fd93)}
	r.next()
	return r.next()
}
func pick[T any](r *rng, xs ...T) T { return xs[r.intn(len(xs))] }

func nid(i int) string { return fmt.Sprintf("n%d", i) }

// ---------------------------------------------------------------------------------------------
// graph families. Every generator returns an edge list over node ids n0..nk.

type family struct {
	name string
	gen  func(r *rng, big bool) [][]string
}

func edge(a, b int) []string { return []string{nid(a), nid(b)} }

func famRandom(r *rng, big bool) [][]string {
	n := r.between(2, 9)
	if r.chance(35) {
		n = r.between(8, 14)
	}
	if big {
		n = r.between(10, 28)
	}
	m := r.between(1, 2*n)
	var es [][]string
	selfPct := pick(r, 0, 0, 10, 30)
	dupPct := pick(r, 0, 10, 30)
	for len(es) < m {
		a, b := r.intn(n), r.intn(n)
		if a == b && !r.chance(selfPct) {
			continue
		}
		es = append(es, edge(a, b))
		if r.chance(dupPct) {
			if r.chance(50) {
				es = append(es, edge(a, b))
			} else {
				es = append(es, edge(b, a))
			}
		}
	}
	return es
}

func famDAG(r *rng, big bool) [][]string {
	n := r.between(3, 10)
	if big {
		n = r.between(12, 30)
	}
	m := r.between(n-1, 2*n)
	var es [][]string
	for i := 1; i < n; i++ { // connected backbone
		es = append(es, edge(r.intn(i), i))
	}
	for len(es) < m {
		a, b := r.intn(n), r.intn(n)
		if a == b {
			continue
		}
		if a > b {
			a, b = b, a
		}
		es = append(es, edge(a, b))
		if r.chance(15) {
			es = append(es, edge(a, b)) // duplicate
		}
	}
	shuffleEdges(r, es)
	return es
}

func famTree(r *rng, big bool) [][]string {
	n := r.between(3, 12)
	if big {
		n = r.between(15, 40)
	}
	var es [][]string
	in := r.chance(30)
	for i := 1; i < n; i++ {
		p := r.intn(i)
		if in {
			es = append(es, edge(i, p))
		} else {
			es = append(es, edge(p, i))
		}
	}
	shuffleEdges(r, es)
	return es
}

func famPath(r *rng, big bool) [][]string {
	n := r.between(2, 12)
	if big {
		n = r.between(40, 90) // > 64 layers: thin and tall
	}
	var es [][]string
	for i := 0; i+1 < n; i++ {
		es = append(es, edge(i, i+1))
	}
	// a few chords / branches
	for k := r.intn(4); k > 0; k-- {
		a, b := r.intn(n), r.intn(n)
		if a != b {
			es = append(es, edge(a, b))
		}
	}
	if r.chance(50) {
		shuffleEdges(r, es)
	}
	return es
}

func famTwoCycles(r *rng, big bool) [][]string {
	n := r.between(2, 7)
	var es [][]string
	for k := r.between(1, 2*n); k > 0; k-- {
		a, b := r.intn(n), r.intn(n)
		if a == b {
			continue
		}
		es = append(es, edge(a, b), edge(b, a))
		if r.chance(30) {
			es = append(es, edge(a, b))
		}
	}
	for i := 1; i < n; i++ {
		if r.chance(60) {
			es = append(es, edge(i-1, i))
		}
	}
	if len(es) == 0 {
		es = append(es, edge(0, 1), edge(1, 0))
	}
	shuffleEdges(r, es)
	return es
}

// one node with several adjacent out-edges that all need reversing
func famHubReverse(r *rng, big bool) [][]string {
	k := r.between(2, 5)
	var es [][]string
	// sources feeding a hub h=0 whose out-edges go back to them
	for i := 1; i <= k; i++ {
		es = append(es, edge(i, 0))
	}
	for i := 1; i <= k; i++ {
		if r.chance(80) {
			es = append(es, edge(0, i))
		}
	}
	for i := 1; i < k; i++ {
		if r.chance(50) {
			es = append(es, edge(i, i+1))
		}
	}
	for j := r.intn(3); j > 0; j-- {
		es = append(es, edge(r.intn(k+1), k+1+j))
	}
	if r.chance(50) {
		shuffleEdges(r, es)
	}
	return es
}

func famSelfLoops(r *rng, big bool) [][]string {
	es := famRandom(r, false)
	n := nodeCount(es)
	for k := r.between(2, 5); k > 0; k-- {
		a := r.intn(n)
		es = append(es, edge(a, a))
	}
	shuffleEdges(r, es)
	return es
}

// diamond chain / ladder: few nodes, exponentially many paths
func famDiamonds(r *rng, big bool) [][]string {
	d := r.between(2, 6)
	if big {
		d = r.between(20, 45)
	}
	var es [][]string
	// nodes: 3i (top), 3i+1, 3i+2 (sides), 3(i+1) (bottom)
	for i := 0; i < d; i++ {
		t, a, b, u := 3*i, 3*i+1, 3*i+2, 3*(i+1)
		es = append(es, edge(t, a), edge(t, b), edge(a, u), edge(b, u))
	}
	if r.chance(40) {
		shuffleEdges(r, es)
	}
	return es
}

func famWide(r *rng, big bool) [][]string {
	w := r.between(3, 9)
	if big {
		w = r.between(12, 30)
	}
	var es [][]string
	switch r.intn(3) {
	case 0: // star out
		for i := 1; i <= w; i++ {
			es = append(es, edge(0, i))
		}
	case 1: // bipartite
		a := r.between(2, 4)
		for k := r.between(w, 2*w); k > 0; k-- {
			es = append(es, edge(r.intn(a), a+r.intn(w)))
		}
	default: // star in then out
		for i := 1; i <= w; i++ {
			es = append(es, edge(i, 0))
		}
		for i := 0; i < w/2; i++ {
			es = append(es, edge(0, w+1+i))
		}
	}
	shuffleEdges(r, es)
	return es
}

// long edges: a chain plus skip edges, so that virtual nodes and routing through them happen
func famLongEdges(r *rng, big bool) [][]string {
	n := r.between(4, 9)
	if big {
		n = r.between(10, 20)
	}
	var es [][]string
	for i := 0; i+1 < n; i++ {
		es = append(es, edge(i, i+1))
	}
	for k := r.between(1, n); k > 0; k-- {
		a := r.intn(n - 2)
		b := a + 2 + r.intn(n-a-2)
		if r.chance(20) {
			a, b = b, a
		}
		es = append(es, edge(a, b))
	}
	if r.chance(50) {
		shuffleEdges(r, es)
	}
	return es
}

// slack ties: layered graph where the first tight tree does not span (edges with slack > 0)
func famSlack(r *rng, big bool) [][]string {
	n := r.between(4, 9)
	var es [][]string
	// two chains of different lengths from a common source to a common sink, plus cross links
	l1 := r.between(1, 3)
	l2 := l1 + r.between(1, 3)
	id := 1
	prev := 0
	for i := 0; i < l1; i++ {
		es = append(es, edge(prev, id))
		prev = id
		id++
	}
	endA := prev
	prev = 0
	for i := 0; i < l2; i++ {
		es = append(es, edge(prev, id))
		prev = id
		id++
	}
	endB := prev
	sink := id
	id++
	es = append(es, edge(endA, sink), edge(endB, sink))
	for id < n+3 {
		a := r.intn(id)
		es = append(es, edge(a, id))
		if r.chance(50) {
			es = append(es, edge(id, sink))
		}
		id++
	}
	for k := r.intn(3); k > 0; k-- {
		a, b := r.intn(id), r.intn(id)
		if a < b {
			es = append(es, edge(a, b))
		}
	}
	shuffleEdges(r, es)
	return es
}

// connected random digraph: a random tree with random edge directions plus extra random edges (4..16 nodes)
func famConnected(r *rng, big bool) [][]string {
	n := r.between(4, 16)
	if big {
		n = r.between(16, 34)
	}
	m := n - 1 + r.intn(2*n)
	var es [][]string
	for i := 1; i < n; i++ {
		a := r.intn(i)
		if r.chance(50) {
			es = append(es, edge(a, i))
		} else {
			es = append(es, edge(i, a))
		}
	}
	for len(es) < m {
		a, b := r.intn(n), r.intn(n)
		if a != b {
			es = append(es, edge(a, b))
		}
	}
	if r.chance(30) {
		shuffleEdges(r, es)
	}
	return es
}

// several simple cycles hanging off hubs or chained together, plus a cyclic remainder: the shapes on which a
// feedback-arc heuristic has to place nodes that become sources and sinks at the same time
func famPendantCycles(r *rng, big bool) [][]string {
	k := r.between(2, 5)
	if big {
		k = r.between(4, 8)
	}
	var es [][]string
	id := 0
	hub := -1
	if r.chance(60) {
		hub = id
		id++
	}
	prevEntry := -1
	for c := 0; c < k; c++ {
		n := r.between(3, 5)
		first := id
		for i := 0; i < n; i++ {
			es = append(es, edge(first+i, first+(i+1)%n))
		}
		id += n
		entry := first + r.intn(n)
		switch {
		case hub >= 0 && r.chance(70):
			if r.chance(80) {
				es = append(es, edge(entry, hub))
			} else {
				es = append(es, edge(hub, entry))
			}
		case prevEntry >= 0:
			es = append(es, edge(prevEntry, entry))
		}
		prevEntry = entry
		if r.chance(20) { // a chord
			es = append(es, edge(first, first+2))
		}
	}
	for x := r.intn(3); x > 0; x-- {
		a, b := r.intn(id), r.intn(id)
		if a != b {
			es = append(es, edge(a, b))
		}
	}
	if r.chance(70) {
		shuffleEdges(r, es)
	}
	return es
}

var baseFamilies = []family{
	{"random", famRandom}, {"dag", famDAG}, {"tree", famTree}, {"path", famPath}, {"twocycles", famTwoCycles},
	{"hubreverse", famHubReverse}, {"selfloops", famSelfLoops}, {"diamonds", famDiamonds}, {"wide", famWide},
	{"longedges", famLongEdges}, {"slack", famSlack}, {"pendantcycles", famPendantCycles}, {"connected", famConnected},
}

func shuffleEdges(r *rng, es [][]string) {
	for i := len(es) - 1; i > 0; i-- {
		j := r.intn(i + 1)
		es[i], es[j] = es[j], es[i]
	}
}

func nodeCount(es [][]string) int {
	m := map[string]bool{}
	for _, e := range es {
		for _, x := range e {
			m[x] = true
		}
	}
	return len(m)
}

func nodeIDs(es [][]string) []string {
	seen := map[string]bool{}
	var ids []string
	for _, e := range es {
		for _, x := range e {
			if !seen[x] {
				seen[x] = true
				ids = append(ids, x)
			}
		}
	}
	return ids
}

// relabel gives the nodes of a component fresh ids with a prefix so that unions stay disjoint
func relabel(es [][]string, prefix string) [][]string {
	out := make([][]string, len(es))
	for i, e := range es {
		out[i] = []string{prefix + e[0], prefix + e[1]}
	}
	return out
}

// multi-component input: union of small graphs, edge lists interleaved, possibly isolated self-looped nodes
func genMulti(r *rng, big bool) ([][]string, string) {
	k := r.between(2, 4)
	var parts [][][]string
	names := []string{}
	for i := 0; i < k; i++ {
		if r.chance(20) {
			parts = append(parts, [][]string{{fmt.Sprintf("s%d", i), fmt.Sprintf("s%d", i)}})
			names = append(names, "loopnode")
			continue
		}
		f := baseFamilies[r.intn(len(baseFamilies))]
		es := f.gen(r, false)
		if len(es) > 10 {
			es = es[:10]
		}
		parts = append(parts, relabel(es, string(rune('a'+i))))
		names = append(names, f.name)
	}
	var es [][]string
	if r.chance(60) { // interleave
		for {
			live := 0
			for i := range parts {
				if len(parts[i]) > 0 {
					live++
				}
			}
			if live == 0 {
				break
			}
			i := r.intn(len(parts))
			if len(parts[i]) == 0 {
				continue
			}
			es = append(es, parts[i][0])
			parts[i] = parts[i][1:]
		}
	} else {
		for _, p := range parts {
			es = append(es, p...)
		}
	}
	return es, "multi(" + strings.Join(names, "+") + ")"
}

var nastyIDs = []string{"", "V1", "V2", "NE0", "NE1", "NE2", "V0", " ", "\n", "é", "日本語", "n\x00", "a->b", strings.Repeat("x", 300), "V10", "NE10", "0", "-1"}

// adversarial node ids: an injective renaming drawing from helper-name alphabets
var idSeparators = []string{" -> ", "->", " - ", "-", "|", ":", ",", " ", "\x00", "/", ".", "_", "=>", "\t", "\n", ";", "#", "::", "\x1f"}

// renameAmbiguous gives node ids a content that breaks code which treats ids as anything but opaque strings: composite
// keys built by joining two ids with a separator that occurs inside an id (two different edges with the same joined
// key), ids that become equal after trimming / case folding / number parsing / Unicode normalisation, ids that are
// prefixes of one another, invalid UTF-8, one long common prefix.
func renameAmbiguous(r *rng, es [][]string) [][]string {
	ids := nodeIDs(es)
	m := map[string]string{}
	for _, id := range ids {
		m[id] = id
	}
	switch mode := r.intn(6); {
	case mode <= 1 && len(es) >= 2:
		// edges (X, Y+SEP+Z) and (X+SEP+Y, Z): both join to X SEP Y SEP Z
		sep := idSeparators[r.intn(len(idSeparators))]
		x, y, z := pick(r, "build", "a", "n", "x1"), pick(r, "test", "b", "7", "y"), pick(r, "deploy", "c", "0", "z")
		for try := 0; try < 30; try++ {
			e1, e2 := es[r.intn(len(es))], es[r.intn(len(es))]
			if e1[0] == e1[1] || e2[0] == e2[1] || e1[0] == e2[0] || e1[1] == e2[1] || e1[0] == e2[1] {
				continue
			}
			// e1[1] == e2[0] is impossible to satisfy (Y SEP Z != X SEP Y); any other sharing is fine
			if e1[1] == e2[0] {
				continue
			}
			m[e1[0]], m[e1[1]], m[e2[0]], m[e2[1]] = x, y+sep+z, x+sep+y, z
			break
		}
	case mode == 2:
		// equal after canonicalisation
		variants := pick(r, []string{"a", "A", " a", "a ", "\ta"}, []string{"1", "01", "1.0", "+1", "1e0"}, []string{"\u00e9", "e\u0301", "\u00c9", "E\u0301"},
			[]string{"stra\u00dfe", "STRASSE", "strasse", "Stra\u00dfe"}, []string{"i", "I", "\u0131", "\u0130"}, []string{"x", "x\x00", "x\u200b", "\ufeffx"})
		for i, id := range ids {
			if i < len(variants) {
				m[id] = variants[i]
			}
		}
	case mode == 3:
		// prefixes of one another
		p := pick(r, "n", "node", "ab", "0")
		for i, id := range ids {
			if i < 6 {
				m[id] = p + strings.Repeat(pick(r, "0", "a", p), i)
			}
		}
	case mode == 4:
		// invalid UTF-8, lone surrogates' encodings, embedded quotes and newlines
		odd := []string{"\xff", "\xc3\x28", "a\xffb", "\xed\xa0\x80", "\"", "'", "a\nb", "\\", "%s", "{}", "<a>", "\x7f"}
		for i, id := range ids {
			if r.chance(60) && i < len(odd) {
				m[id] = odd[(i+r.intn(3))%len(odd)]
			}
		}
	default:
		// one long common prefix (hashes / comparisons that look at the first bytes or at the length only)
		p := strings.Repeat(pick(r, "x", "ab", "\u00e9"), pick(r, 40, 200, 1000))
		for i, id := range ids {
			m[id] = p + fmt.Sprintf("%0*d", pick(r, 1, 3), i)
		}
	}
	seen := map[string]bool{}
	for _, id := range ids {
		for seen[m[id]] {
			m[id] = m[id] + "'"
		}
		seen[m[id]] = true
	}
	out := make([][]string, len(es))
	for i, e := range es {
		out[i] = []string{m[e[0]], m[e[1]]}
	}
	return out
}

func renameNasty(r *rng, es [][]string) [][]string {
	if r.chance(45) {
		return renameAmbiguous(r, es)
	}
	ids := nodeIDs(es)
	m := map[string]string{}
	used := map[string]bool{}
	for _, id := range ids {
		if r.chance(60) {
			c := nastyIDs[r.intn(len(nastyIDs))]
			if !used[c] {
				used[c] = true
				m[id] = c
				continue
			}
		}
		m[id] = id
		used[id] = true
	}
	// make sure the renaming is injective
	seen := map[string]bool{}
	for _, id := range ids {
		for seen[m[id]] {
			m[id] = m[id] + "'"
		}
		seen[m[id]] = true
	}
	out := make([][]string, len(es))
	for i, e := range es {
		out[i] = []string{m[e[0]], m[e[1]]}
	}
	return out
}

type genCfg struct {
	allowRandomGreedy bool
	nastyPct          int
	multiPct          int
	bigPct            int
	veryWidePct       int      // graphs whose layer width / edge multiplicity / degree sits next to 32, 64, 100, 128, 256
	extremePct        int      // option sets whose sizes and spacings are extreme finite numbers (1e-12, 5e-324, 1e150, 1e300, ...)
	families          []string // restrict (empty = all)
}

// famVeryWide: size thresholds. Fast paths, stack buffers, bit sets and small integer types are guarded by, or break
// at, a width / multiplicity / degree next to a power of two or a round number; small random graphs never get there.
// The shapes are cheap for the real algorithms (trees, bundles of parallel edges, stars), so that widths of a few
// hundred cost milliseconds; only the sparse random two-layer shape has crossings to minimise and stays below 70.
func famVeryWide(r *rng) ([][]string, string) {
	t := pick(r, 32, 64, 64, 100, 128, 256)
	w := t + r.between(-4, 6)
	if w < 3 {
		w = 3
	}
	var es [][]string
	shape := ""
	switch d := r.intn(100); {
	case d < 25: // two-level tree: two adjacent layers of width w
		shape = "tree2"
		for i := 0; i < w; i++ {
			es = append(es, []string{"r", fmt.Sprintf("m%d", i)}, []string{fmt.Sprintf("m%d", i), fmt.Sprintf("l%d", i)})
		}
	case d < 45: // a short path plus w parallel long edges: virtual nodes make the middle layers w+1 wide
		shape = "longbundle"
		es = append(es, []string{"a", "b"}, []string{"b", "c"}, []string{"c", "d"})
		for i := 0; i < w; i++ {
			es = append(es, []string{"a", "d"})
		}
	case d < 62: // bundles of parallel short edges to two targets (w segments side by side in one gap)
		shape = "bundles"
		for i := 0; i < w; i++ {
			es = append(es, []string{"a", "b"})
			if i%2 == 0 || r.chance(50) {
				es = append(es, []string{"a", "c"})
			}
		}
	case d < 80: // hub: one node with w out- (or in-) edges, optionally a second hub below
		shape = "hub"
		down := r.chance(60)
		for i := 0; i < w; i++ {
			if down {
				es = append(es, []string{"h", fmt.Sprintf("s%d", i)})
			} else {
				es = append(es, []string{fmt.Sprintf("s%d", i), "h"})
			}
		}
		if r.chance(40) {
			for i := 0; i < w; i += 2 {
				es = append(es, []string{fmt.Sprintf("s%d", i), "g"})
			}
		}
	case d < 92: // w components / w self-loops
		shape = "many"
		for i := 0; i < w; i++ {
			switch r.intn(3) {
			case 0:
				es = append(es, []string{fmt.Sprintf("p%d", i), fmt.Sprintf("q%d", i)})
			case 1:
				es = append(es, []string{fmt.Sprintf("p%d", i), fmt.Sprintf("p%d", i)}, []string{fmt.Sprintf("p%d", i), "z"})
			default:
				es = append(es, []string{"z", fmt.Sprintf("q%d", i)})
			}
		}
	default: // sparse random two-layer graph with crossings (expensive: capped)
		shape = "bilayer"
		if w > 66 {
			w = 60 + r.intn(7)
		}
		for j := 0; j < w; j++ {
			for k := r.between(1, 2); k > 0; k-- {
				es = append(es, []string{fmt.Sprintf("t%d", r.intn(w)), fmt.Sprintf("b%d", j)})
			}
		}
		for i := 0; i < w; i++ {
			es = append(es, []string{"root", fmt.Sprintf("t%d", i)})
		}
	}
	if r.chance(50) {
		shuffleEdges(r, es)
	}
	return es, "verywide(" + shape + ")"
}

func genGraph(r *rng, gc genCfg) ([][]string, string) {
	if gc.veryWidePct > 0 && r.intn(1000) < gc.veryWidePct {
		return famVeryWide(r)
	}
	big := r.chance(gc.bigPct)
	var es [][]string
	var name string
	if r.chance(gc.multiPct) {
		es, name = genMulti(r, big)
	} else {
		fams := baseFamilies
		if len(gc.families) > 0 {
			fams = nil
			for _, f := range baseFamilies {
				for _, w := range gc.families {
					if f.name == w {
						fams = append(fams, f)
					}
				}
			}
		}
		f := fams[r.intn(len(fams))]
		es = f.gen(r, big)
		name = f.name
	}
	if big {
		name += "/big"
	}
	if r.chance(gc.nastyPct) {
		es = renameNasty(r, es)
		name += "/ids"
	}
	return es, name
}

// ---------------------------------------------------------------------------------------------
// option configurations: the documented production grid

func fptr(f float64) *float64 { return &f }
func iptr(i int) *int         { return &i }
func uptr(u uint) *uint       { return &u }
func bptr(b bool) *bool       { return &b }

func genOptions(r *rng, es [][]string, gc genCfg) spec.Options {
	var o spec.Options
	if r.chance(12) {
		// all defaults
		return o
	}
	p1 := []string{"", "greedy", "dfs"}
	if gc.allowRandomGreedy {
		p1 = append(p1, "greedy-random", "greedy-random")
	}
	o.P1 = pick(r, p1...)
	o.P2 = pick(r, "", "ns", "longestpath")
	o.P3 = pick(r, "", "", "wmedian")
	o.P4 = pick(r, "", "sinkcoloring", "valign", "packright", "ns", "bk", "bk")
	if o.P4 == "bk" && r.chance(70) {
		o.BK = iptr(pick(r, 0, 1, 2, 3, -1, 4))
	}
	if o.P4 == "ns" && len(es)+nodeCount(es) >= 45 {
		// the option's documentation says it "might be time-intensive for graphs above a few dozen nodes" (every pivot
		// recomputes all cut values: ~thoroughness*|V|*|E|^2): slowness there is documented, not a finding, so the
		// time budget is not applied to it - larger graphs use the other positioners
		o.P4 = pick(r, "", "sinkcoloring", "valign", "packright", "bk")
	}
	o.P5 = pick(r, "", "polyline", "straight", "ortho", "splines", "splines", "noop")
	integral := o.P4 == "ns" && r.chance(85)
	extreme := gc.extremePct > 0 && r.chance(gc.extremePct)
	if extreme {
		integral = false
	}
	xnum := func() float64 {
		if o.P4 == "ns" && os.Getenv("VERIF_NS_HUGE") == "" {
			// the NetworkSimplex positioner works on an integer grid: tiny positive values next to ordinary ones
			return pick(r, 1e-9, 1e-6, 1e-5, 1e-4, 1e-12, 0.001, 0.01)
		}
		// finite, non-negative, extreme: tiny, subnormal, huge, a sum of two of which overflows, not exactly representable
		return pick(r, 1e-12, 5e-324, 1e-300, 1e-9, 1e15+0.5, 1e150, 1e300, 1.7e308, 0.1+0.2, 1.0/3.0)
	}
	dim := func() float64 {
		if extreme && r.chance(50) {
			return xnum()
		}
		if integral {
			return float64(pick(r, 0, 1, 10, 20, 40, 100, 33))
		}
		return pick(r, 0, 1, 10, 20, 40, 100, 0.5, 33.3, 1e-3, 250.75)
	}
	switch r.intn(4) {
	case 0:
	case 1:
		o.FixedSize = &[2]float64{dim(), dim()}
	case 2, 3:
		ids := nodeIDs(es)
		sort.Strings(ids)
		cover := pick(r, 100, 100, 60, 0)
		o.Sizes = []spec.NodeSize{}
		for _, id := range ids {
			if r.chance(cover) {
				o.Sizes = append(o.Sizes, spec.NodeSize{ID: id, W: dim(), H: dim()})
			}
		}
		if r.chance(30) {
			o.FixedSize = &[2]float64{dim(), dim()}
		}
		if r.chance(15) && len(ids) > 0 {
			// the same option given twice in one call, each with a map of its own (the later one wins today): entries that
			// overlap with the first map, entries for other nodes, an entry for an id that is not in the graph
			o.Sizes2 = []spec.NodeSize{}
			for k := r.between(1, 4); k > 0; k-- {
				o.Sizes2 = append(o.Sizes2, spec.NodeSize{ID: ids[r.intn(len(ids))], W: dim(), H: dim()})
			}
			if r.chance(40) {
				o.Sizes2 = append(o.Sizes2, spec.NodeSize{ID: "not-in-the-graph", W: dim(), H: dim()})
			}
		}
	}
	if r.chance(50) {
		if integral {
			o.NodeSpacing = fptr(float64(pick(r, 0, 1, 10, 60)))
		} else {
			o.NodeSpacing = fptr(pick(r, 0, 1, 10, 60, 0.25, 12.5))
		}
	}
	if r.chance(50) {
		o.LayerSpacing = fptr(pick(r, 0, 1, 10, 150, 0.5, 77.7))
	}
	if extreme {
		if r.chance(60) {
			o.LayerSpacing = fptr(xnum())
		}
		if r.chance(60) {
			o.NodeSpacing = fptr(xnum())
		}
	}
	if r.chance(35) {
		o.Thoroughness = uptr(pick(r, uint(0), 1, 2, 5, 28, 100))
	}
	if r.chance(20) {
		o.VirtualOut = bptr(r.chance(70))
	}
	return o
}

// canonical text of a call (for distinctness counting and samples)
func callKey(c *spec.Call) string {
	var b strings.Builder
	for _, e := range c.Edges {
		b.WriteString(strings.Join(e, "\x01"))
		b.WriteByte('\x02')
	}
	o := c.Opts
	fmt.Fprintf(&b, "|%s|%s|%s|%s|%s|", o.P1, o.P2, o.P3, o.P4, o.P5)
	if o.BK != nil {
		fmt.Fprintf(&b, "bk%d|", *o.BK)
	}
	if o.FixedSize != nil {
		fmt.Fprintf(&b, "fs%v|", *o.FixedSize)
	}
	if o.Sizes2 != nil {
		fmt.Fprintf(&b, "sz2%v|", o.Sizes2)
	}
	if o.Sizes != nil {
		fmt.Fprintf(&b, "sz%v|", o.Sizes)
	}
	if o.NodeSpacing != nil {
		fmt.Fprintf(&b, "ns%v|", *o.NodeSpacing)
	}
	if o.LayerSpacing != nil {
		fmt.Fprintf(&b, "ls%v|", *o.LayerSpacing)
	}
	if o.Thoroughness != nil {
		fmt.Fprintf(&b, "th%v|", *o.Thoroughness)
	}
	if o.VirtualOut != nil {
		fmt.Fprintf(&b, "vo%v|", *o.VirtualOut)
	}
	return b.String()
}

func edgesText(es [][]string) string {
	parts := make([]string, len(es))
	for i, e := range es {
		if len(e) != 2 {
			parts[i] = fmt.Sprintf("<malformed edge %q>", e)
			continue
		}
		parts[i] = fmt.Sprintf("%q->%q", e[0], e[1])
		if len(e) == 2 && !strings.ContainsAny(e[0]+e[1], " \"\n\x00,>") && e[0] != "" && e[1] != "" {
			parts[i] = e[0] + "->" + e[1]
		}
	}
	return strings.Join(parts, ", ")
}

func optsText(o spec.Options) string {
	var p []string
	add := func(k, v string) {
		if v != "" {
			p = append(p, k+"="+v)
		}
	}
	add("p1", o.P1)
	add("p2", o.P2)
	add("p3", o.P3)
	add("p4", o.P4)
	if o.BK != nil {
		p = append(p, fmt.Sprintf("bk=%d", *o.BK))
	}
	add("p5", o.P5)
	if o.FixedSize != nil {
		p = append(p, fmt.Sprintf("fixed=%vx%v", o.FixedSize[0], o.FixedSize[1]))
	}
	if o.Sizes2 != nil {
		p = append(p, fmt.Sprintf("second-size-map=%d", len(o.Sizes2)))
	}
	if o.Sizes != nil {
		p = append(p, fmt.Sprintf("sizes=%d", len(o.Sizes)))
	}
	if o.NodeSpacing != nil {
		p = append(p, fmt.Sprintf("nodesp=%v", *o.NodeSpacing))
	}
	if o.LayerSpacing != nil {
		p = append(p, fmt.Sprintf("layersp=%v", *o.LayerSpacing))
	}
	if o.Thoroughness != nil {
		p = append(p, fmt.Sprintf("thorough=%v", *o.Thoroughness))
	}
	if o.VirtualOut != nil {
		p = append(p, fmt.Sprintf("virtual=%v", *o.VirtualOut))
	}
	if len(p) == 0 {
		return "defaults"
	}
	return strings.Join(p, " ")
}
