package main

import (
	"encoding/json"
	"fmt"
	"os"
	"regexp"
	"strings"
	"time"

	"github.com/nulab/autog/zzverif/spec"
)

// C15 — concurrent Layout calls do not interfere.

func (cx *Ctx) c15Calls(r *rng, k int) []spec.Call {
	gc := genCfg{allowRandomGreedy: true, nastyPct: 3, multiPct: 25, bigPct: 0}
	var calls []spec.Call
	// swarm: in half of the specs all callers use the same algorithm selection (state shared on a path that only
	// one algorithm takes is reached by every caller), and their graphs are cyclic more often than not
	common := r.chance(50)
	var shared spec.Options
	defer func() {
		if !common || len(calls) == 0 {
			return
		}
		shared = calls[0].Opts
		// in half of these all callers pass the very same Option values (one []autog.Option built once by the application
		// and handed to every goroutine): state hidden inside an option closure is then shared state
		shareValues := r.chance(50)
		for i := range calls {
			o := &calls[i].Opts
			o.P1, o.P2, o.P3, o.P4, o.BK, o.P5 = shared.P1, shared.P2, shared.P3, shared.P4, shared.BK, shared.P5
			if shareValues && i > 0 {
				calls[i].Opts = shared
				zero := 0
				calls[i].ShareOpts = &zero
			}
		}
	}()
	for i := 0; i < k; i++ {
		es, _ := genGraph(r, gc)
		if len(es) > 16 {
			es = es[:16]
		}
		if r.chance(12) {
			// two wide adjacent layers (fast paths and pooled buffers are often guarded by a size threshold)
			es = nil
			a, b := r.between(7, 11), r.between(7, 11)
			for x := 0; x < a; x++ {
				es = append(es, edge(100, x))
				for y := 0; y < b; y++ {
					if r.chance(30) {
						es = append(es, edge(x, 20+y))
					}
				}
			}
			for y := 0; y < b; y++ {
				es = append(es, edge(r.intn(a), 20+y))
			}
			shuffleEdges(r, es)
		}
		if common && r.chance(60) {
			// make sure there are directed cycles of length >= 3 (cycle breaking, reversed edges, back edges)
			ids := nodeIDs(es)
			for c := r.between(1, 3); c > 0 && len(ids) >= 3; c-- {
				a, b, d := ids[r.intn(len(ids))], ids[r.intn(len(ids))], ids[r.intn(len(ids))]
				if a != b && b != d && a != d {
					es = append(es, []string{a, b}, []string{b, d}, []string{d, a})
				}
			}
		}
		if r.chance(10) {
			// hubs: nodes with 16+ in- or out-edges between two crossing layers (degree-thresholded fast paths)
			es = nil
			h := 2
			w := r.between(18, 24)
			for x := 0; x < h; x++ {
				down := r.chance(70)
				for y := 0; y < w; y++ {
					if down {
						es = append(es, edge(x, 10+y))
					} else {
						es = append(es, edge(10+y, x))
					}
				}
			}
			shuffleEdges(r, es)
		}
		o := genOptions(r, es, gc)
		if o.P5 == "splines" && r.chance(70) {
			o.P5 = "polyline"
		}
		calls = append(calls, spec.Call{Edges: es, Opts: o})
	}
	if k >= 3 && r.chance(25) {
		// one or two callers ABORT: an empty source or a malformed edge (documented panics, recovered by that caller).
		// Whatever such a call leaves behind - a flag not cleared, a buffer released that it never owned - is seen by the
		// valid calls running next to it. Alone, the aborting call panics the same way, so O1 applies to it as well.
		for n := r.between(1, 2); n > 0; n-- {
			i := r.intn(len(calls))
			if r.chance(50) || len(calls[i].Edges) == 0 {
				calls[i].Edges = [][]string{}
			} else {
				calls[i].Edges[r.intn(len(calls[i].Edges))] = pick(r, []string{"x"}, []string{"x", "y", "z"}, []string{})
			}
		}
	}
	if k >= 2 && r.chance(30) {
		// every valid caller gets a graph of at least 16-24 nodes (pooled / recycled resources are usually reserved for
		// graphs above some small size)
		for i := range calls {
			if n := nodeCount(calls[i].Edges); n > 0 && n < 16 {
				ids := nodeIDs(calls[i].Edges)
				for x := 0; n+x < r.between(16, 24); x++ {
					calls[i].Edges = append(calls[i].Edges, []string{ids[r.intn(len(ids))], fmt.Sprintf("pad%d", x)})
				}
			}
		}
	}
	return calls
}

// two dense layers in which every node is a hub (degree >= 16): thresholded fast paths for high-degree nodes
func c15Dense(r *rng, tag string) [][]string {
	a, b := r.between(16, 18), r.between(16, 18)
	var es [][]string
	for x := 0; x < a; x++ {
		for y := 0; y < b; y++ {
			if r.chance(97) {
				es = append(es, []string{fmt.Sprintf("t%s%d", tag, x), fmt.Sprintf("b%s%d", tag, y)})
			}
		}
	}
	shuffleEdges(r, es)
	return es
}

// an algorithm selection drawn from the whole documented grid (splines rarely: 35-40 % of spline runs fail by themselves)
func c15RareSelection(r *rng) spec.Options {
	o := spec.Options{P1: pick(r, "", "dfs", "greedy"), P2: pick(r, "", "longestpath"), P4: pick(r, "", "bk", "bk", "valign", "packright", "sinkcoloring"),
		P5: pick(r, "", "ortho", "ortho", "straight", "polyline", "noop", "splines")}
	if o.P4 == "bk" && r.chance(60) {
		o.BK = iptr(r.intn(4))
	}
	return o
}

// a small graph with every feature a special case might key on
func c15FeatureRich(r *rng, tag string, o spec.Options) spec.Call {
	n := func(i int) string { return fmt.Sprintf("%s%d", tag, i) }
	depth := r.between(5, 6)
	var es [][]string
	for i := 0; i+1 < depth; i++ {
		es = append(es, []string{n(i), n(i + 1)})
	}
	es = append(es, []string{n(0), n(depth - 1)})                // long edge over the whole chain
	es = append(es, []string{n(depth - 2), n(depth + 1)})         // a sibling in the last layer: the long edge is not vertical
	es = append(es, []string{n(0), n(depth + 1)})                 // a second long edge
	es = append(es, []string{n(1), n(depth - 1)})                 // and a third, one layer shorter
	es = append(es, []string{n(2), n(2)})                         // self-loop
	for c := r.between(2, 3); c > 0; c-- {
		es = append(es, []string{n(1), n(2)}) // parallel bundle
	}
	es = append(es, []string{n(3), n(2)})                                   // antiparallel pair
	es = append(es, []string{tag + "_other_component_a", tag + "_other_component_with_a_long_identifier"}) // second component, long ids
	if r.chance(50) {
		es = append(es, []string{tag + "x", tag + "y"}, []string{tag + "y", tag + "x"}) // third component: a two-cycle
	}
	shuffleEdges(r, es)
	oo := o
	switch r.intn(3) {
	case 0:
		oo.FixedSize = &[2]float64{float64(r.between(2, 12) * 10), float64(r.between(2, 6) * 10)}
	case 1:
		for _, id := range nodeIDs(es) {
			if r.chance(75) { // some entries missing
				oo.Sizes = append(oo.Sizes, spec.NodeSize{ID: id, W: float64(r.between(1, 12) * 10), H: float64(r.between(1, 6) * 10)})
			}
		}
	}
	if r.chance(50) {
		oo.LayerSpacing = fptr(float64(r.between(1, 20) * 10))
	}
	return spec.Call{Edges: es, Opts: oo}
}

// k versions of one layered diagram: same node ids and layers, targets of edge pairs between two adjacent layers swapped
func c15Related(r *rng, k int) []spec.Call {
	es, lay := famLayeredL(r)
	o := spec.Options{}
	if r.chance(50) {
		o = spec.Options{P1: pick(r, "", "dfs"), P2: pick(r, "", "longestpath"), P4: pick(r, "", "valign", "packright", "sinkcoloring", "bk"), P5: pick(r, "", "straight", "noop", "ortho")}
	}
	base := spec.Call{Edges: es, Opts: o}
	var calls []spec.Call
	for c := 0; c < k; c++ {
		v := base
		v.Edges = nil
		for _, e := range base.Edges {
			v.Edges = append(v.Edges, append([]string(nil), e...))
		}
		for n := r.intn(3); n > 0 && c > 0; n-- {
			if w, ok := variantLayered(r, v, lay); ok {
				v = w
			}
		}
		calls = append(calls, v)
	}
	return calls
}

// two or three moderately wide layers (5-9 nodes each, >= 25 cells between neighbours) under one root
func c15Wide(r *rng, tag string) [][]string {
	var es [][]string
	layers := r.between(2, 3)
	prev := []string{"root" + tag}
	for l := 0; l < layers; l++ {
		w := r.between(5, 9)
		var cur []string
		for x := 0; x < w; x++ {
			id := fmt.Sprintf("%s_%d_%d", tag, l, x)
			cur = append(cur, id)
			es = append(es, []string{prev[r.intn(len(prev))], id})
			if l > 0 && r.chance(60) {
				es = append(es, []string{prev[r.intn(len(prev))], id})
			}
		}
		prev = cur
	}
	if r.chance(30) && len(prev) >= 2 {
		es = append(es, []string{prev[0], "root" + tag}) // a cycle through the root
	}
	shuffleEdges(r, es)
	return es
}

// two sparse layers of 33-36 nodes each: more than 1024 cells between them (size thresholds of pooled buffers)
func c15VeryWide(r *rng, tag string) [][]string {
	a, b := r.between(33, 36), r.between(33, 36)
	var es [][]string
	for y := 0; y < b; y++ {
		for k := r.between(1, 2); k > 0; k-- {
			es = append(es, []string{fmt.Sprintf("t%s%d", tag, r.intn(a)), fmt.Sprintf("b%s%d", tag, y)})
		}
	}
	for x := 0; x < a; x++ {
		es = append(es, []string{"root" + tag, fmt.Sprintf("t%s%d", tag, x)})
	}
	shuffleEdges(r, es)
	return es
}

func c15Schedules(r *rng, n int) []*spec.Schedule {
	var out []*spec.Schedule
	out = append(out, &spec.Schedule{Policy: "rr"})
	for len(out) < n {
		switch r.intn(5) {
		case 4:
			// short, frequent stalls at yield points (before atomic operations, locks, shared variables, sampled loop
			// iterations): windows of lock-free and check-then-act code
			out = append(out, &spec.Schedule{Policy: "stall", Seed: r.next(), Depth: pick(r, 10, 30, 80), Steps: pick(r, 12, 24, 60), LoopPct: pick(r, 0, 2, 10, 40), EntryPct: pick(r, 0, 0, 3)})
		case 0:
			out = append(out, &spec.Schedule{Policy: "random", Seed: r.next(), EntryPct: pick(r, 0, 0, 3, 15)})
		case 1:
			out = append(out, &spec.Schedule{Policy: "pct", Seed: r.next(), Depth: r.between(1, 3), EntryPct: pick(r, 0, 3)})
		case 2:
			// preemption inside loops: reaches interleavings over heap objects shared through a pool or an alias
			out = append(out, &spec.Schedule{Policy: pick(r, "random", "rr"), Seed: r.next(), LoopPct: pick(r, 2, 10, 40), EntryPct: pick(r, 0, 3)})
		default:
			out = append(out, &spec.Schedule{Policy: "rr", Seed: r.next(), EntryPct: pick(r, 1, 5, 25)})
		}
	}
	return out
}

// oracleC15 evaluates O1 (isolation) and O2 (data-race freedom on package-level state) on one conc job.
func (cx *Ctx) oracleC15(rs []JobResult) (bool, string, string, string) {
	if len(rs) != 1 {
		cx.trouble("c15 oracle expects one job")
		return false, "", "", ""
	}
	jr := rs[0]
	if jr.Res == nil {
		return false, "", "", "" // dying process: C01
	}
	if jr.Res.Error != "" {
		cx.trouble("conc job: %s", jr.Res.Error)
		return false, "", "", ""
	}
	res := jr.Res
	damaged := false // some concurrent caller did not simply return or panic: blocked tasks may live on in the process
	for _, o := range res.Outcomes {
		if o.Verdict == "HARNESS" {
			cx.trouble("harness verdict: %s", o.Detail)
			return false, "", "", ""
		}
		if o.Verdict == "DEADLOCK" || o.Verdict == "BUDGET" || o.Verdict == "FATAL" {
			damaged = true
		}
	}
	for _, o := range res.Solo {
		// an in-process reference taken after a damaged concurrent phase may trip over what that phase left behind (a task
		// of another call woken up inside this one): such references are retaken in a fresh process below, not trusted
		if o.Verdict == "HARNESS" && !damaged {
			cx.trouble("harness verdict: %s", o.Detail)
			return false, "", "", ""
		}
	}
	sched := "default schedule"
	if jr.Job.Sched != nil {
		sched = fmt.Sprintf("schedule %s(seed %d, depth %d, entry yields %d%%, loop yields %d/1000)", jr.Job.Sched.Policy, jr.Job.Sched.Seed, jr.Job.Sched.Depth, jr.Job.Sched.EntryPct, jr.Job.Sched.LoopPct)
		if jr.Job.Sched.Policy == "explicit" {
			sched = fmt.Sprintf("explicit schedule %v", jr.Job.Sched.Explicit)
		}
	}
	// O2
	if len(res.Conflicts) > 0 {
		c := res.Conflicts[0]
		pa, pb := c.A, c.B
		if pb < pa {
			pa, pb = pb, pa
		}
		_ = pb
		key := fmt.Sprintf("data-race | %s", c.Var)
		what := fmt.Sprintf("data race on package-level variable %s (%s): task %d %s and task %d %s are not ordered by happens-before; %d concurrent callers, %s, %d context switches",
			c.Var, c.Loc, c.TaskA, c.A, c.TaskB, c.B, len(jr.Job.Calls), sched, res.Switches)
		return true, key, what, fpOf(key)
	}
	if os.Getenv("VERIF_DEBUG_C15") != "" {
		for _, o := range res.Outcomes {
			if o.Verdict == "DEADLOCK" {
				fmt.Fprintf(os.Stderr, "debug c15 job: outcomes=%d solo=%d conflicts=%d\n", len(res.Outcomes), len(res.Solo), len(res.Conflicts))
				for i, o := range res.Outcomes {
					fmt.Fprintf(os.Stderr, "   conc %d %s/%s tasks=%d\n", i, o.Verdict, o.Detail, o.Tasks)
				}
				for i, o := range res.Solo {
					fmt.Fprintf(os.Stderr, "   solo %d %s/%s tasks=%d\n", i, o.Verdict, o.Detail, o.Tasks)
				}
				break
			}
		}
	}
	// O1
	spawned, cut := false, false
	for _, o := range res.Outcomes {
		// (the in-process solo runs are not asked: a caller left blocked for ever by the concurrent phase lives on in the
		// process and is counted among the tasks of whichever later call wakes it up)
		if o.Tasks > 1 {
			spawned = true
		}
	}
	for _, o := range append(append([]spec.Outcome{}, res.Outcomes...), res.Solo...) {
		if o.Verdict == "BUDGET" {
			cut = true
		}
	}
	if spawned && cut {
		// a call that exceeded a budget was cut short, and the library runs goroutines of its own: those it shares with
		// the other callers (long-lived workers) may have been stopped with it. In real Go the slow call would simply go
		// on; here the other callers' outcomes say nothing about interference. Not judged.
		return false, "", "", ""
	}
	for i := range res.Outcomes {
		if i >= len(res.Solo) {
			break
		}
		a, b := res.Solo[i], res.Outcomes[i]
		if os.Getenv("VERIF_DEBUG_C15") != "" && (b.Verdict == "BUDGET" || a.Verdict == "BUDGET" || b.Verdict == "DEADLOCK" || a.Verdict == "DEADLOCK") {
			fmt.Fprintf(os.Stderr, "debug c15 pre: caller %d conc %s/%s ticks=%d; solo %s/%s ticks=%d spawned=%v\n", i, b.Verdict, b.Detail, b.Ticks, a.Verdict, a.Detail, a.Ticks, spawned)
		}
		if (a.Verdict != "OK" || b.Verdict != "OK") && !spawned {
			// The in-process reference ran AFTER the concurrent phase, in the same process: if the concurrent phase damaged
			// shared state for good (a free list turned into a cycle, a lock left held), the reference is damaged in the same
			// way and "both hang" / "both panic" would look like agreement. Whenever either run did not simply return, the
			// reference is taken again from the same call ALONE IN A FRESH PROCESS (same resolution, same per-read clock).
			if f, ok := cx.c15FreshSolo(jr.Job, i); ok {
				a = f
			}
		}
		if a.Verdict == "HARNESS" {
			continue // no usable reference for this caller
		}
		if a.Verdict != "BUDGET" && b.Verdict == "BUDGET" && (b.Detail == "loop" || b.Detail == "ticks" || b.Detail == "depth") && !spawned {
			// returns when run alone, runs away next to the others. Ticks are counted per call, on the caller's own task, so
			// the other callers' work is not in this number. A caller may legitimately do MORE work under contention (a CAS
			// retry loop, polling for a resource another caller holds), but never more than what all callers together need
			// alone: "ran 20x longer than the solo runs of all callers together, and was still not done" is a call that does
			// not return because of the others. (Heap growth is process-wide and is not judged here.)
			var all uint64
			for k := range res.Solo {
				f, ok := cx.c15FreshSolo(jr.Job, k)
				if !ok || f.Verdict == "BUDGET" || f.Verdict == "DEADLOCK" {
					all = 1 << 62 // some caller runs away by itself: how long the others may take next to it is not judged
					break
				}
				all += f.Ticks
			}
			if os.Getenv("VERIF_DEBUG_C15") != "" {
				fmt.Fprintf(os.Stderr, "debug c15: caller %d conc %s/%s ticks=%d; solo(fresh?) %s ticks=%d; all=%d\n", i, b.Verdict, b.Detail, b.Ticks, a.Verdict, a.Ticks, all)
			}
			if b.Ticks/20 > all {
				c := jr.Job.Calls[i]
				what := fmt.Sprintf("caller %d of %d concurrent callers: Layout(%s; %s) %s after %d simulated ticks when run alone in a fresh process, but under %s it was still running after %d ticks of its own (all %d callers together need %d ticks alone): %s",
					i, len(jr.Job.Calls), edgesText(c.Edges), optsText(c.Opts), describe(a), a.Ticks, sched, b.Ticks, len(res.Solo), all, describe(b))
				return true, "interference | call does not return under concurrency", what, fpOf("noreturn", b.Detail)
			}
		}
		if a.Verdict == "BUDGET" || b.Verdict == "BUDGET" {
			continue
		}
		if jr.Job.Calls[i].Opts.P1 == "greedy-random" && (a.Tasks > 1 || b.Tasks > 1 || a.ClockHash != b.ClockHash) {
			// the explicitly non-deterministic option reads the clock: "what it returns when run alone" is one value only
			// for one sequence of clock readings. The two runs are compared when the call was handed exactly the same
			// clock values in both (conc jobs use a per-read clock, so that contention - more loop iterations, a cache
			// miss instead of a hit - does not shift the readings); otherwise they are not comparable. Once the call itself
			// runs several goroutines the order of its reads depends on the schedule.
			continue
		}
		if a.Hash != b.Hash || a.Verdict != b.Verdict {
			c := jr.Job.Calls[i]
			what := fmt.Sprintf("caller %d of %d concurrent callers: Layout(%s; %s) %s when run alone but %s under %s",
				i, len(jr.Job.Calls), edgesText(c.Edges), optsText(c.Opts), describe(a), describe(b), sched)
			if a.Full != "" && b.Full != "" {
				what += "; " + firstDiff(a.Full, b.Full)
			}
			return true, "interference | result differs under concurrency", what, fpOf(a.Hash, b.Hash)
		}
		// goroutines that Layout started and that were still alive when it returned (b.LeakedTasks) are not judged: the
		// property does not forbid a long-lived worker; they stay in the simulated process and run under later schedules
	}
	return false, "", "", ""
}

// c15FreshSolo runs caller i of a conc job alone in a fresh worker process (a conc job with one caller: same group
// configuration, same resolution, same per-read clock) and returns its outcome. Cached per (call, resolution).
func (cx *Ctx) c15FreshSolo(job *spec.Job, i int) (spec.Outcome, bool) {
	r := job.Res[0]
	if len(job.Res) == len(job.Calls) {
		r = job.Res[i]
	}
	c := job.Calls[i]
	c.ShareOpts = nil
	kb, _ := json.Marshal([]any{c, r, job.Budgets})
	key := fpOf(string(kb))
	if cx.c15Solo == nil {
		cx.c15Solo = map[string]*spec.Outcome{}
	}
	if o, ok := cx.c15Solo[key]; ok {
		if o == nil {
			return spec.Outcome{}, false
		}
		return *o, true
	}
	one := *cx.simFresh
	one.N = 1
	j := &spec.Job{ID: 0, Kind: "conc", Calls: []spec.Call{c}, Res: []spec.Resolution{r}, Sched: &spec.Schedule{Policy: "rr"}, Budgets: job.Budgets}
	rs := one.Run([]*spec.Job{j}, nil)
	cx.c15SoloRuns++
	if len(rs) != 1 || rs[0].Res == nil || rs[0].Res.Error != "" || len(rs[0].Res.Outcomes) != 1 || rs[0].Res.Outcomes[0].Verdict == "HARNESS" {
		cx.c15Solo[key] = nil
		return spec.Outcome{}, false
	}
	o := rs[0].Res.Outcomes[0]
	o.SiteExec, o.PermKinds, o.Perms, o.Stack = nil, nil, nil, ""
	cx.c15Solo[key] = &o
	return o, true
}

var raceFn = regexp.MustCompile(`(?m)^  (github\.com/nulab/autog[^\s(]*)\(`)

// oracleRealRace: stress job on the un-instrumented -race build.
func (cx *Ctx) oracleRealRace(rs []JobResult) (bool, string, string, string) {
	for _, jr := range rs {
		if strings.Contains(jr.Stderr, "WARNING: DATA RACE") || strings.Contains(jr.Fatal, "WARNING: DATA RACE") {
			txt := jr.Stderr + jr.Fatal
			fn := "?"
			for _, m := range raceFn.FindAllStringSubmatch(txt, -1) {
				if !strings.Contains(m[1], "/zzverif/") {
					fn = strings.TrimPrefix(m[1], "github.com/nulab/autog/")
					break
				}
			}
			n := strings.Count(txt, "WARNING: DATA RACE")
			head := txt
			if i := strings.Index(head, "WARNING: DATA RACE"); i >= 0 {
				head = head[i:]
			}
			if len(head) > 1500 {
				head = head[:1500]
			}
			return true, "real-race | " + fn, fmt.Sprintf("the Go race detector reported %d data race(s) while %d goroutines called Layout concurrently (un-instrumented build); first report: %s", n, jr.Job.Goroutines, head), fpOf("race", fn)
		}
		if jr.Res != nil && len(jr.Res.Outcomes) > 0 {
			o := jr.Res.Outcomes[0]
			return true, "interference | real threads", "un-instrumented build, real goroutines: " + o.Detail, fpOf("realdiff")
		}
	}
	return false, "", "", ""
}

func (cx *Ctx) runC15() {
	nSpecs := cx.count(300, 4000)
	nSched := 8
	if cx.Tier == "thorough" {
		nSched = 32
	}
	cx.Budgets.Frame = 2_000_000
	cx.Budgets.Ticks = 50_000_000
	known := cx.replayKnown()
	corpusN := cx.runCorpus()
	r := rng{s: mix(cx.Seed, 0xC15)}

	var jobs []*spec.Job
	nSharedOpts, nAllWide, nTwoClasses, nRelated, nFeature := 0, 0, 0, 0, 0
	for i := 0; i < nSpecs; i++ {
		k := r.between(2, 8)
		calls := cx.c15Calls(&r, k)
		dense := r.chance(2)
		if !dense && r.chance(3) {
			// one caller with very wide layers next to ordinary wide ones (a buffer recycled by the first serves the others)
			dense = true
			k = r.between(2, 3)
			o := spec.Options{P1: pick(&r, "", "dfs"), P4: pick(&r, "", "valign", "packright"), P5: pick(&r, "", "straight", "noop")}
			calls = []spec.Call{{Edges: c15VeryWide(&r, "v"), Opts: o}}
			if r.chance(50) {
				// two very wide callers: both are above the threshold at the same time
				calls = append(calls, spec.Call{Edges: c15VeryWide(&r, "w"), Opts: o})
			}
			for len(calls) < k {
				w := cx.c15Calls(&r, 1)[0]
				w.Opts = o
				calls = append(calls, w)
			}
		} else if dense {
			k = 2
			o := spec.Options{P1: pick(&r, "", "dfs"), P4: pick(&r, "", "valign", "packright"), P5: pick(&r, "", "straight", "noop")}
			calls = []spec.Call{{Edges: c15Dense(&r, "x"), Opts: o}, {Edges: c15Dense(&r, "y"), Opts: o}}
		}
		oneMachine := false
		fam := ""
		if !dense && r.chance(6) {
			// ALL callers (3-5) above the usual size thresholds at once, same algorithm selection: a recycled resource that
			// is safe with two users and breaks with three (free lists, slot arrays, generation counters) needs every one of
			// >= 3 overlapping callers on the shared path. Two or three moderately wide layers per caller: cheap.
			fam = "allwide"
			nAllWide++
			k = r.between(3, 5)
			o := spec.Options{P1: pick(&r, "", "", "dfs"), P2: pick(&r, "", "", "longestpath"), P4: pick(&r, "", "", "valign", "packright", "sinkcoloring"), P5: pick(&r, "", "straight", "noop", "polyline")}
			calls = nil
			for c := 0; c < k; c++ {
				calls = append(calls, spec.Call{Edges: c15Wide(&r, fmt.Sprint("q", c)), Opts: o})
			}
		} else if !dense && r.chance(9) {
			// RELATED inputs: every caller lays out a version of ONE diagram - same node ids, same layers, same algorithm
			// selection, the wiring between two adjacent layers differs in one or two places (or not at all). That is what an
			// application does when it re-renders revisions of a document concurrently, and it is where a shared memo or
			// cache whose key leaves out part of the input (the edges, an option) hands one caller another caller's value.
			fam = "related"
			nRelated++
			k = r.between(2, 5)
			calls = c15Related(&r, k)
		} else if !dense && r.chance(9) {
			// ONE RARE PATH: 2-4 callers share an algorithm selection drawn from the whole grid, and every caller's graph has
			// every feature a special case might key on: an edge spanning 4-5 layers (>= 3 virtual nodes), a self-loop, a
			// bundle of parallel edges, an antiparallel pair, a second component, a long node id, per-node sizes with a
			// missing entry. State shared only on "algorithm X and input feature Y" is reached by all of them at once.
			fam = "featurerich"
			nFeature++
			k = r.between(2, 4)
			o := c15RareSelection(&r)
			calls = nil
			for c := 0; c < k; c++ {
				calls = append(calls, c15FeatureRich(&r, fmt.Sprint("f", c), o))
			}
		} else if !dense && r.chance(8) {
			// TWO CLASSES of callers: k = 4-6 callers, each on one of two algorithm selections A and B (>= 2 callers each)
			// that differ in the rarely used, expensive algorithms. Resources shared between two code paths - a gate with two
			// classes, two locks taken in opposite orders, a condition variable with two kinds of waiters - go wrong only
			// when callers of both kinds overlap, and usually only on a small machine (limits derived from the CPU count):
			// all callers of such a spec see the same simulated machine, small more often than not.
			fam = "twoclasses"
			nTwoClasses++
			oneMachine = true
			k = r.between(4, 6)
			heavy := []spec.Options{{P4: "ns"}, {P5: "splines"}, {P5: "ortho"}, {P2: "longestpath"}, {P1: "dfs"}, {P4: "sinkcoloring"}, {P4: "packright"}, {P4: "bk"}, {P1: "greedy-random"}}
			ia := r.intn(len(heavy))
			ib := r.intn(len(heavy) - 1)
			if ib >= ia {
				ib++
			}
			if r.chance(40) {
				ia, ib = 0, 1 // the two algorithms the documentation singles out as time-intensive
			}
			calls = nil
			for c := 0; c < k; c++ {
				o := heavy[ia]
				if c%2 == 1 {
					o = heavy[ib]
				}
				var es [][]string
				if r.chance(50) {
					es = c15Wide(&r, fmt.Sprint("c", c))
				} else {
					es, _ = genGraph(&r, genCfg{nastyPct: 0, multiPct: 10})
					if len(es) > 14 {
						es = es[:14]
					}
				}
				if o.P4 == "ns" {
					o.FixedSize = &[2]float64{float64(r.between(1, 6) * 10), float64(r.between(1, 4) * 10)}
				}
				calls = append(calls, spec.Call{Edges: es, Opts: o})
			}
			// random arrival order of the two classes
			for c := len(calls) - 1; c > 0; c-- {
				d := r.intn(c + 1)
				calls[c], calls[d] = calls[d], calls[c]
			}
		}
		if len(calls) > 1 && calls[1].ShareOpts != nil {
			nSharedOpts++
		}
		res := make([]spec.Resolution, k)
		for t := range res {
			res[t] = spec.Resolution{Adv: pick(&r, "identity", "identity", "seeded"), AdvSeed: r.next(), T0: int64(r.next() >> 3)}
		}
		if oneMachine {
			// one simulated machine for all callers: 1 CPU (reverse), 8 CPUs (identity) or a drawn one (seeded: 1..192)
			m := spec.Resolution{Adv: pick(&r, "reverse", "reverse", "seeded", "seeded", "identity"), AdvSeed: r.next()}
			for t := range res {
				res[t].Adv, res[t].AdvSeed = m.Adv, m.AdvSeed
			}
		}
		scheds := c15Schedules(&r, nSched)
		if fam == "allwide" {
			// lock-free structures break inside a window of one or two instructions and only if the stalled caller stays
			// stalled while the others make real progress: priority schedules with preemption inside loops
			for si := range scheds {
				if si%4 == 1 {
					scheds[si] = &spec.Schedule{Policy: "pct", Seed: r.next(), Depth: r.between(2, 3), EntryPct: pick(&r, 0, 3), LoopPct: pick(&r, 2, 10, 40)}
				} else if si%2 == 1 || si%4 == 2 {
					scheds[si] = &spec.Schedule{Policy: "stall", Seed: r.next(), Depth: pick(&r, 10, 30, 80), Steps: pick(&r, 12, 24, 60), LoopPct: pick(&r, 2, 10, 40)}
				}
			}
		}
		if dense {
			scheds = scheds[:nSched/2] // expensive specs: half the schedules
		}
		for _, sc := range scheds {
			if dense && sc.LoopPct == 0 && sc.EntryPct == 0 {
				sc = &spec.Schedule{Policy: "random", Seed: r.next(), EntryPct: 3, LoopPct: 10}
			}
			if sc.Policy == "pct" && sc.Steps == 0 {
				// each caller makes roughly 20-80 shared-state accesses; change points are spread over that many steps
				sc.Steps = 50 * k
				if sc.EntryPct > 0 {
					sc.Steps *= 8
				}
				if sc.LoopPct > 0 || sc.Seed%2 == 1 {
					// the number of scheduling steps of a run is not known in advance (a library that polls an atomic in a hot
					// loop makes 100k+ of them): half of the priority schedules spread their change points over a range drawn
					// log-uniformly between 100 and ~3M steps
					sc.Steps = 100 << ((sc.Seed >> 8) % 16)
				}
			}
			b := cx.Budgets
			if dense {
				b.Ticks, b.Frame = 600_000_000, 20_000_000
			}
			jobs = append(jobs, &spec.Job{ID: len(jobs), Kind: "conc", Calls: calls, Res: res, Sched: sc, Budgets: b})
		}
	}
	cx.phase(fmt.Sprintf("C15: %d schedules over %d specs", len(jobs), nSpecs))
	// every schedule runs in a fresh worker process: package-level state is cold, and a violation found here
	// replays exactly (no dependence on what the worker did before)
	// executed in chunks whose results are reduced to what the analysis needs, so that memory stays flat
	var results []JobResult
	for a := 0; a < len(jobs); a += 4000 {
		b := min(a+4000, len(jobs))
		for _, jr := range cx.simFresh.Run(jobs[a:b], nil) {
			if jr.Res != nil {
				for i := range jr.Res.Outcomes {
					o := &jr.Res.Outcomes[i]
					o.SiteExec, o.PermKinds, o.Perms, o.Stack = nil, nil, nil, ""
				}
				for i := range jr.Res.Solo {
					o := &jr.Res.Solo[i]
					o.SiteExec, o.PermKinds, o.Perms, o.Stack = nil, nil, nil, ""
				}
			}
			jr.Stderr = ""
			results = append(results, jr)
		}
	}
	cx.phase("C15: analysing")
	cx.slowest(results, 10)
	fps := map[string]bool{}
	nontrivial := map[string]bool{}
	accesses := map[string]int{}
	policies := map[string]int{}
	var switches, yields, tasks, died int
	var ticks uint64
	verdicts := map[string]int{}
	var samples []any
	for _, jr := range results {
		if jr.Timeout {
			cx.trouble("a concurrent-callers job was silent for %v: stuck outside the simulator's control (unowned blocking operation inside the library?); callers: %d", cx.simFresh.Timeout, len(jr.Job.Calls))
			continue
		}
		if jr.Res == nil {
			died++
			continue
		}
		if jr.Res.Error != "" {
			cx.trouble("conc job: %s", jr.Res.Error)
			continue
		}
		res := jr.Res
		fps[res.SchedFP] = true
		if res.Overlap && res.Switches >= 1 {
			nontrivial[res.SchedFP] = true
		}
		switches += res.Switches
		yields += res.Yields
		tasks += len(res.Outcomes)
		policies[jr.Job.Sched.Policy]++
		for k, v := range res.Accesses {
			accesses[k] += v
		}
		for _, o := range res.Outcomes {
			ticks += o.Ticks
			verdicts[o.Verdict]++
		}
		if len(samples) < 4 && res.Overlap {
			samples = append(samples, map[string]any{"callers": len(jr.Job.Calls), "schedule": jr.Job.Sched, "context_switches": res.Switches, "yields": res.Yields,
				"decisions_run_length_encoded": headInts(res.SchedRLE, 40), "first_caller": edgesText(jr.Job.Calls[0].Edges) + " ; " + optsText(jr.Job.Calls[0].Opts)})
		}
		if v, key, what, fp := cx.oracleC15([]JobResult{jr}); v {
			if cx.hasViolation(key) || cx.isKnown(key) != nil {
				cx.report(key, what, nil)
				continue
			}
			cx.c15Shrink(jr.Job, key, what, fp)
		}
	}
	nEval := len(results)
	results = nil
	// ---- O3: real threads under the race detector (adjunct)
	cx.phase("C15: real-thread adjunct under the race detector")
	o3 := cx.c15Real(&r)

	wall := time.Since(cx.Start).Seconds()
	cov := map[string]any{
		"evaluations":         nEval,
		"distinct_nontrivial": len(nontrivial),
		"rule": "a case is one schedule of k (2..8) concurrent Layout calls on independent sources and option values, no monitor, all library code real; the cooperative scheduler decides at every access to a package-level variable " +
			"(and at a sampled subset of function entries) which caller runs next (round-robin, uniform random, PCT with d<=3 change points). Oracles: O1 every caller's result equals its solo result (same task-local choice streams); " +
			"O2 no two accesses to a package-level variable from different callers, one of them a write, unordered by happens-before (vector clocks over task start/join and simulated sync primitives). " +
			"evaluations = schedules executed; distinct = schedule fingerprint (sequence of task ids at yields); non-trivial iff >=1 context switch happened after some caller's first shared-state access and before it finished.",
		"samples":                   samples,
		"specs":                     nSpecs,
		"schedules_per_spec":        nSched,
		"specs_whose_callers_share_one_set_of_option_values": nSharedOpts,
		"specs_with_3_to_5_callers_all_above_size_thresholds": nAllWide,
		"specs_with_two_classes_of_callers_on_one_simulated_machine": nTwoClasses,
		"specs_whose_callers_lay_out_versions_of_one_diagram": nRelated,
		"specs_whose_callers_share_a_rare_algorithm_selection_on_feature_rich_graphs": nFeature,
		"distinct_schedule_fingerprints": len(fps),
		"context_switches_total":    switches,
		"yields_total":              yields,
		"caller_tasks":              tasks,
		"schedules_by_policy":       policies,
		"shared_variable_accesses":  accesses,
		"verdicts":                  verdicts,
		"sim_ticks_total":           ticks,
		"jobs_that_died":            died,
		"solo_references_retaken_alone_in_a_fresh_process": cx.c15SoloRuns,
		"runs_per_hour":             int(float64(nEval) / wall * 3600),
		"package_level_variables":   cx.Seams["vars"],
		"package_level_accesses_static": cx.Seams["accesses"],
		"unowned_seams":             cx.unownedSeams(),
		"faults_fired":              map[string]int{"context switch at a shared-state access or sampled function entry": switches},
		"real_thread_adjunct_O3":    o3,
		"regression_corpus_specs":     corpusN,
		"known_findings_confirmed":  known,
		"violation_keys":            violKeys(cx),
	}
	cx.writeEvidence(cov, []string{
		"the library has no synchronisation and no blocking of its own, so under sequential consistency callers can influence each other only through package-level variables and objects reachable from them: yields at every such access realise every distinguishable interleaving",
		"accesses of kind U (address taken, pointer-receiver method on a non-pointer variable, passed by reference) are yield points but are never reported by O2; heap objects reached through aliases are invisible to O2: both are covered by O3 (real threads, race detector), which is observation, not simulation",
		"sync.Mutex/RWMutex/WaitGroup/Once operations and go statements inside the library are simulated (happens-before edges); channel operations, select and sync.Cond are not owned (listed under unowned_seams)",
		"seeded search over schedules: evidence, not proof",
	})
}

func headInts(x []int, n int) []int {
	if len(x) > n {
		return x[:n]
	}
	return x
}

func (cx *Ctx) c15Violates(job *spec.Job, key string) (bool, []JobResult) {
	one := *cx.simFresh // fresh process: cold package-level state, like the run that found it
	one.N = 1
	jj := *job
	jj.RecordPerms = true // ask for the complete schedule decision list
	rs := one.Run([]*spec.Job{&jj}, nil)
	v, k, _, _ := cx.oracleC15(rs)
	return v && k == key, rs
}

func (cx *Ctx) c15Shrink(job *spec.Job, key, what, fp string) {
	j := *job
	ok, rs := cx.c15Violates(&j, key)
	if !ok {
		cx.trouble("a C15 violation (%s) did not reproduce when re-run", key)
		return
	}
	deadline := time.Now().Add(60 * time.Second)
	// 1. make the schedule explicit
	if rs[0].Res != nil && len(rs[0].Res.SchedRLE) > 0 && j.Sched != nil && j.Sched.EntryPct == 0 && j.Sched.LoopPct == 0 {
		e := j
		e.Sched = &spec.Schedule{Policy: "explicit", Explicit: rs[0].Res.SchedRLE}
		if ok, _ := cx.c15Violates(&e, key); ok {
			j = e
		}
	}
	// 2. fewer callers
	type tc struct {
		c spec.Call
		r spec.Resolution
	}
	var items []tc
	for i := range j.Calls {
		items = append(items, tc{j.Calls[i], j.Res[i%len(j.Res)]})
	}
	build := func(its []tc, sched *spec.Schedule) *spec.Job {
		n := j
		n.Calls, n.Res = nil, nil
		for _, it := range its {
			n.Calls = append(n.Calls, it.c)
			n.Res = append(n.Res, it.r)
		}
		n.Sched = sched
		return &n
	}
	// dropping callers invalidates an explicit schedule: search with simple policies
	for _, sc := range []*spec.Schedule{{Policy: "rr"}, {Policy: "random", Seed: 1}, {Policy: "random", Seed: 2}, {Policy: "pct", Seed: 3, Depth: 2}} {
		if len(items) <= 2 {
			break
		}
		if ok, _ := cx.c15Violates(build(items, sc), key); !ok {
			continue
		}
		red := ddmin(items, func(its []tc) bool {
			if len(its) < 2 {
				return false
			}
			ok, _ := cx.c15Violates(build(its, sc), key)
			return ok
		}, deadline)
		if len(red) < len(items) {
			items = red
			j = *build(items, sc)
		}
		break
	}
	// 3. smaller graphs per caller
	for i := range items {
		if time.Now().After(deadline) {
			break
		}
		sc := shrinkCall(items[i].c, func(t spec.Call) bool {
			its := append([]tc{}, items...)
			its[i].c = t
			ok, _ := cx.c15Violates(build(its, j.Sched), key)
			return ok
		}, 10*time.Second)
		items[i].c = sc
		j = *build(items, j.Sched)
	}
	// 4. explicit schedule with the fewest context switches
	if ok, rs := cx.c15Violates(&j, key); ok && rs[0].Res != nil && (j.Sched == nil || (j.Sched.EntryPct == 0 && j.Sched.LoopPct == 0)) {
		rle := rs[0].Res.SchedRLE
		e := j
		e.Sched = &spec.Schedule{Policy: "explicit", Explicit: rle}
		if ok, _ := cx.c15Violates(&e, key); ok {
			j = e
			// merge adjacent runs: drop a segment (its steps are taken over by the continuing task)
			type seg struct{ t, n int }
			var segs []seg
			for k := 0; k+1 < len(rle); k += 2 {
				segs = append(segs, seg{rle[k], rle[k+1]})
			}
			flat := func(ss []seg) []int {
				var o []int
				for _, s := range ss {
					o = append(o, s.t, s.n)
				}
				return o
			}
			segs = ddmin(segs, func(ss []seg) bool {
				t := j
				t.Sched = &spec.Schedule{Policy: "explicit", Explicit: flat(ss)}
				ok, _ := cx.c15Violates(&t, key)
				return ok
			}, deadline)
			j.Sched = &spec.Schedule{Policy: "explicit", Explicit: flat(segs)}
		}
	}
	j.WantFull = true
	one := *cx.simFresh
	one.N = 1
	frs := one.Run([]*spec.Job{&j}, nil)
	v, k, w, f := cx.oracleC15(frs)
	if !v || k != key {
		cx.trouble("a shrunk C15 violation did not reproduce (%s)", key)
		return
	}
	cx.report(k, w, &ReplayFile{Property: "C15", Oracle: "c15.sim", Key: k, What: w, Jobs: []ReplayJob{{Pool: "simfresh", Job: j}}, Expect: f})
}

// c15Real runs the un-instrumented -race build with many real goroutines.
func (cx *Ctx) c15Real(r *rng) map[string]any {
	if cx.RaceBin == "" {
		return map[string]any{"skipped": "no race worker"}
	}
	if os.Getenv("VERIF_SKIP_O3") != "" {
		// experiments on seeded changes only (a real-thread hang costs the whole stress timeout); never set by the checks
		return map[string]any{"skipped": "VERIF_SKIP_O3 set (experiment)"}
	}
	// inputs: must return under simulation first (the real runtime has no budget)
	var cand []*spec.Job
	for i := 0; i < 90; i++ {
		var c spec.Call
		if i%3 == 0 {
			c = cx.c15Calls(r, 1)[0]
		} else {
			// pairs of callers with the same algorithm selection as the previous candidate
			c = cx.c15Calls(r, 1)[0]
			p := cand[len(cand)-1].Calls[0].Opts
			c.Opts.P1, c.Opts.P2, c.Opts.P3, c.Opts.P4, c.Opts.BK, c.Opts.P5 = p.P1, p.P2, p.P3, p.P4, p.BK, p.P5
			ids := nodeIDs(c.Edges)
			if len(ids) >= 3 {
				c.Edges = append(c.Edges, []string{ids[0], ids[1]}, []string{ids[1], ids[2]}, []string{ids[2], ids[0]})
			}
		}
		if c.Opts.P5 == "splines" {
			c.Opts.P5 = "ortho"
		}
		cand = append(cand, &spec.Job{ID: i, Kind: "multi", Calls: []spec.Call{c}, Res: []spec.Resolution{{Adv: "identity"}, {Adv: "reverse"}}, Budgets: cx.Budgets})
	}
	var rich []spec.Call
	for i := 0; i < 3; i++ {
		// three rare algorithm selections, four feature-rich callers each (adjacent in the input list, so that the
		// goroutines that overlap in time run the same selection)
		o := c15RareSelection(r)
		if o.P5 == "splines" {
			o.P5 = "ortho"
		}
		for c := 0; c < 4; c++ {
			rich = append(rich, c15FeatureRich(r, fmt.Sprintf("g%d_%d_", i, c), o))
		}
	}
	for i := 0; i < 4; i++ {
		cand = append(cand, &spec.Job{ID: len(cand), Kind: "multi", Calls: []spec.Call{{Edges: c15Dense(r, fmt.Sprint("d", i)), Opts: spec.Options{P5: "straight"}}},
			Res: []spec.Resolution{{Adv: "identity"}, {Adv: "reverse"}}, Budgets: cx.Budgets})
	}
	for i := 0; i < 2; i++ {
		cand = append(cand, &spec.Job{ID: len(cand), Kind: "multi", Calls: []spec.Call{{Edges: c15VeryWide(r, fmt.Sprint("w", i)), Opts: spec.Options{P5: "straight"}}},
			Res: []spec.Resolution{{Adv: "identity"}, {Adv: "reverse"}}, Budgets: cx.Budgets})
	}
	var calls []spec.Call
	for _, jr := range cx.sim.Run(cand, nil) {
		if jr.Res != nil && len(jr.Res.Outcomes) == 2 && jr.Res.Outcomes[0].Verdict == "OK" && jr.Res.Outcomes[1].Verdict == "OK" && (jr.Res.Outcomes[0].Ticks < 300000 || jr.Job.ID >= 90) {
			calls = append(calls, jr.Job.Calls[0])
		}
	}
	if len(calls) > 54 {
		calls = append(calls[:48], calls[len(calls)-6:]...)
	}
	calls = append(calls, rich...)
	// versions of two diagrams (same ids and layers, different wiring): memos and caches keyed too coarsely
	for i := 0; i < 2; i++ {
		calls = append(calls, c15Related(r, 4)...)
	}
	// two callers that abort (documented panics, recovered by the caller) run among the valid ones
	calls = append(calls, spec.Call{Edges: [][]string{}}, spec.Call{Edges: [][]string{{"a", "b"}, {"x"}, {"b", "c"}}})
	rounds := cx.count(12, 120)
	type cfg struct {
		procs string
		g     int
	}
	cfgs := []cfg{{"16", 64}, {"4", 32}, {"1", 16}}
	runs := 0
	var jobs []*spec.Job
	for i, c := range cfgs {
		// fewer rounds where fewer cores do the work, so that every configuration takes about the same wall time
		rr := rounds
		switch c.procs {
		case "4":
			rr = max(4, rounds/2)
		case "1":
			rr = max(3, rounds/6)
		}
		jobs = append(jobs, &spec.Job{ID: i, Kind: "stress", Calls: calls, Goroutines: c.g, Rounds: rr, ShareOpts: true})
		runs += c.g * rr
	}
	out := map[string]any{"inputs": len(calls), "goroutine_runs": runs, "configs": []string{"GOMAXPROCS=16 x 64 goroutines", "GOMAXPROCS=4 x 32 goroutines", "GOMAXPROCS=1 x 16 goroutines"},
		"note": "runtime monitoring of real threads (not simulation): covers heap objects reached through aliases and kind-U accesses that O2 cannot see; all goroutines that make the same call share one set of Option values (built once), each with a source of its own"}
	races := 0
	for i, c := range cfgs {
		p := cx.racePool()
		p.Env = append(p.Env, "GOMAXPROCS="+c.procs)
		if cx.Tier == "thorough" {
			p.Timeout = 2 * time.Hour
		} else {
			p.Timeout = 30 * time.Minute
		}
		rs := p.Run([]*spec.Job{jobs[i]}, nil)
		if rs[0].Timeout {
			cx.trouble("real-thread stress timed out")
			continue
		}
		if rs[0].Res != nil && rs[0].Res.Stalled != "" {
			// wall-clock observation: trouble, not a verdict. Race reports and result differences seen before the stall are
			// judged below like any others.
			cx.trouble("real-thread stress (GOMAXPROCS=%s) stalled: %s", c.procs, rs[0].Res.Stalled)
		}
		if v, key, what, fp := cx.oracleRealRace(rs); v {
			races++
			rf := &ReplayFile{Property: "C15", Oracle: "c15.realrace", Key: key, What: what, Jobs: []ReplayJob{{Pool: "race", Job: *jobs[i]}}, Expect: fp,
				Note: "real threads under the race detector: the verdict depends on happens-before, not on timing, so it recurs in practice, but exact replay is not guaranteed"}
			cx.report(key, what, rf)
		}
	}
	out["configs_with_race_reports"] = races
	return out
}
