package main

import "strings"

// Budgets for C01 ("finishes within a time/memory budget that is generous for the graph's size").
//
// Four simulated quantities are bounded, as functions of the input size s = |E| + |V| (input edges
// and distinct node ids). The constants are NOT taken from the implementation: they were derived with
// `VERIF_DUMP=<file> ./check C01` on the repaired tree from the largest values seen among returning
// runs (table in DESIGN.md section 5.1) and multiplied by >= 100.
//
//   loop   iterations executed by one function activation. This is the hang detector: by Koenig's lemma a
//          non-terminating execution has either unbounded call depth or one activation that executes
//          unboundedly many loop iterations (every loop body, labelled statement and function entry is a tick).
//          Largest seen: 13.5k at s=69 (naive cut values, ~(3|E|)^2). Budget 2M + 2000*s^2  (s=69: 11.5M, x850).
//   depth  live function activations. Largest seen: 587 at s~360 (~3 frames per DFS level).
//          Budget 20k + 200*s  (>= x100).
//   ticks  all loop iterations and function entries of the call: catches terminating-but-exponential work. The cost of
//          a returning run depends strongly on the graph family and on the NetworkSimplex positioner (every pivot
//          recomputes all cut values): 90k ticks for a chain of 45 diamonds, 490M for a random connected graph of 35
//          nodes. The budget is therefore 100 x the largest value seen in calibration for the spec's
//          (family, NS positioner?, size bucket) cell - budget_table.go, 102k returning runs - monotone in the size,
//          floor 20M. Graphs with s >= 45 never get the NS positioner (its slowness "above a few dozen nodes" is
//          documented behaviour, not a finding).
//   bytes  growth of the live heap during the call: 2 GiB (largest seen: < 64 MiB).
const byteBudget = 2 << 30

const budgetRule = "with s = |E|+|V|: loop iterations per function activation <= 2M + 2000*s^2; call depth <= 20k + 200*s; total ticks <= 100 x the calibrated maximum of the spec's (family, NS positioner, size bucket) cell (budget_table.go), floor 20M; live-heap growth <= 2 GiB; each >= 100x the largest value observed among returning runs of that size in calibration"

func sizeOf(nEdges, nNodes int) uint64 { return uint64(nEdges + nNodes) }

// tickBudget without a family: the largest budget any family has for that size.
func tickBudget(nEdges, nNodes int) uint64 { return tickBudgetFam("", false, nEdges, nNodes) }

var tickBuckets = []int{10, 20, 30, 45, 70, 100, 150, 1 << 30}

func bucketOf(s int) int {
	for i, b := range tickBuckets {
		if s < b {
			return i
		}
	}
	return len(tickBuckets) - 1
}

func famBase(fam string) string {
	if i := strings.IndexAny(fam, "/("); i >= 0 {
		fam = fam[:i]
	}
	return fam
}

// tickBudgetFam: 100 x the largest tick count of a returning run of that (family, NS positioner?, size bucket) seen in
// calibration (budget_table.go, written by tools/calibrate.py from VERIF_CALIBRATE=1 VERIF_DUMP=... runs), made monotone
// in the size, with a floor of 20M. A family that calibration never produced gets the maximum over all families.
func tickBudgetFam(fam string, nsPositioner bool, nEdges, nNodes int) uint64 {
	bk := bucketOf(nEdges + nNodes)
	key := famBase(fam)
	if nsPositioner {
		key += "+nspos"
	}
	row, ok := tickTable[key]
	var m uint64
	if ok {
		for i := 0; i <= bk && i < len(row); i++ {
			if row[i] > m {
				m = row[i]
			}
		}
	}
	if !ok || m == 0 {
		for k, r := range tickTable {
			if strings.HasSuffix(k, "+nspos") != nsPositioner && !nsPositioner {
				continue
			}
			for i := 0; i <= bk && i < len(r); i++ {
				if r[i] > m {
					m = r[i]
				}
			}
		}
	}
	b := 100 * m
	if b < 20_000_000 {
		b = 20_000_000
	}
	return b
}

func depthBudget(nEdges, nNodes int) int { return 20_000 + 200*int(sizeOf(nEdges, nNodes)) }
func frameBudget(nEdges, nNodes int) uint64 {
	s := sizeOf(nEdges, nNodes)
	return 2_000_000 + 2000*s*s
}
