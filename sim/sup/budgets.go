package main

// Budgets for C01 ("finishes within a time/memory budget that is generous for the graph's size").
//
// Four simulated quantities are bounded, as functions of the input size s = |E| + |V| (input edges
// and distinct node ids). The constants are NOT taken from the implementation: they were derived with
// `VERIF_DUMP=<file> ./check C01` on the repaired tree from the largest values seen among returning
// runs (table in DESIGN.md section 5.1) and multiplied by >= 100.
//
//   loop   iterations executed by one function activation. This is the hang detector: by Koenig's lemma a
//          non-terminating execution has either unbounded call depth or one activation that executes
//          unboundedly many loop iterations (every loop body, labelled statement and function entry is a tick).
//          Largest seen: 13.5k at s=69 (naive cut values, ~(3|E|)^2). Budget 2M + 2000*s^2  (s=69: 11.5M, x850).
//   depth  live function activations. Largest seen: 587 at s~360 (~3 frames per DFS level).
//          Budget 20k + 200*s  (>= x100).
//   ticks  all loop iterations and function entries of the call: catches terminating-but-exponential work.
//          Largest seen over 8000 specs of the workload distribution: 3.0M for s<20, 35M for s>=20 (network simplex
//          positioner at s~35; the big graphs of the workload are structured and cheaper). Largest seen: 128k for s<10, 3.0M for 10<=s<20, 35M for s>=20. Budget 50M / 400M / 4G (>= x100).
//   bytes  growth of the live heap during the call: 2 GiB (largest seen: < 64 MiB).
const byteBudget = 2 << 30

const budgetRule = "with s = |E|+|V|: loop iterations per function activation <= 2M + 2000*s^2; call depth <= 20k + 200*s; total ticks <= 50M (s<10) / 400M (s<20) / 4G; live-heap growth <= 2 GiB; each >= 100x the largest value observed among returning runs of that size in calibration"

func sizeOf(nEdges, nNodes int) uint64 { return uint64(nEdges + nNodes) }

func tickBudget(nEdges, nNodes int) uint64 {
	switch s := sizeOf(nEdges, nNodes); {
	case s < 10:
		return 50_000_000
	case s < 20:
		return 400_000_000
	}
	return 4_000_000_000
}
func depthBudget(nEdges, nNodes int) int { return 20_000 + 200*int(sizeOf(nEdges, nNodes)) }
func frameBudget(nEdges, nNodes int) uint64 {
	s := sizeOf(nEdges, nNodes)
	return 2_000_000 + 2000*s*s
}
