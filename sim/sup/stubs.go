package main

import (
	"encoding/json"
	"fmt"

	"github.com/nulab/autog/zzverif/spec"
)

// selftest: determinism of the simulator itself. A mixed sample of jobs (multi-resolution, concurrent schedules,
// fault-injected histories) is executed six times in fresh worker processes: twice under each of three process
// layouts (1 worker x GOMAXPROCS=1, 4 x 4, 16 x 16). Every answer must be byte-identical (trace hashes, tick counts,
// results, schedule fingerprints, event sequences). Exit 0 = deterministic, 2 = not.
func (cx *Ctx) selftest() int {
	r := rng{s: mix(cx.Seed, 0x5e1f)}
	gc := genCfg{allowRandomGreedy: true, nastyPct: 5, multiPct: 30, bigPct: 2}
	var jobs []*spec.Job
	n := cx.count(40, 400)
	b := cx.Budgets
	b.Frame, b.Ticks = 2_000_000, 30_000_000
	for i := 0; i < n; i++ {
		es, _ := genGraph(&r, gc)
		c := spec.Call{Edges: es, Opts: genOptions(&r, es, gc)}
		jobs = append(jobs, &spec.Job{ID: len(jobs), Kind: "multi", Calls: []spec.Call{c}, Res: c07Resolutions(&r, 5), Budgets: b})
	}
	for i := 0; i < n/3; i++ {
		k := r.between(2, 6)
		calls := cx.c15Calls(&r, k)
		for _, sc := range c15Schedules(&r, 3) {
			jobs = append(jobs, &spec.Job{ID: len(jobs), Kind: "conc", Calls: calls, Res: []spec.Resolution{{Adv: "seeded", AdvSeed: r.next()}}, Sched: sc, Budgets: b})
		}
	}
	for i := 0; i < n/2; i++ {
		jobs = append(jobs, &spec.Job{ID: len(jobs), Kind: "history", Calls: cx.c18History(&r), Res: []spec.Resolution{{Adv: "identity"}}, Budgets: b})
	}
	canon := func(jr JobResult) string {
		if jr.Res == nil {
			return "DIED"
		}
		res := *jr.Res
		res.WallMs = 0
		for i := range res.Outcomes {
			res.Outcomes[i].Bytes = 0
		}
		for i := range res.Solo {
			res.Solo[i].Bytes = 0
		}
		bts, _ := json.Marshal(res)
		return string(bts)
	}
	var ref []string
	mismatch, runs := 0, 0
	for _, lay := range []struct {
		w     int
		procs string
	}{{1, "1"}, {4, "4"}, {16, "16"}} {
		for rep := 0; rep < 2; rep++ {
			p := *cx.simFresh
			p.N = lay.w
			p.Env = []string{"GOMAXPROCS=" + lay.procs}
			rs := p.Run(jobs, nil)
			runs++
			for i, jr := range rs {
				c := canon(jr)
				if ref == nil || len(ref) <= i {
					ref = append(ref, c)
					continue
				}
				if c != ref[i] {
					mismatch++
					if mismatch <= 5 {
						fmt.Printf("MISMATCH job %d (%s) layout %dx%s rep %d\n", i, jobs[i].Kind, lay.w, lay.procs, rep)
					}
				}
			}
		}
	}
	fmt.Printf("selftest: %d jobs (%d multi, conc and history) x %d executions in fresh processes under 3 process layouts: %d mismatches\n", len(jobs), n, runs, mismatch)
	if mismatch > 0 || len(cx.Trouble) > 0 {
		return 2
	}
	return 0
}
