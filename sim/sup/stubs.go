package main

func (cx *Ctx) runC15() { cx.trouble("C15 not implemented yet") }
func (cx *Ctx) runC18() { cx.trouble("C18 not implemented yet") }
func (cx *Ctx) selftest() int { return 2 }
func (cx *Ctx) oracleC15(rs []JobResult) (bool, string, string, string)      { return false, "", "", "" }
func (cx *Ctx) oracleRealRace(rs []JobResult) (bool, string, string, string) { return false, "", "", "" }
func (cx *Ctx) oracleC18(rs []JobResult) (bool, string, string, string)      { return false, "", "", "" }
