package main

func (cx *Ctx) selftest() int { return 2 }
