// Command supervisor drives the deterministic-simulation checks: it turns VERIF_SEED into run
// specifications, executes them on supervised worker processes, evaluates the oracles, shrinks
// and records violations as replay files, and writes the evidence file. See /verif/DESIGN.md.
//
// Exit codes: 0 property held on everything explored (known findings are printed, not failed);
// 1 violation (a line "VIOLATION property=<id> replay=<path>" is printed); 2 harness, build or
// environment trouble (never a violation).
package main

import (
	"encoding/json"
	"flag"
	"fmt"
	"os"
	"path/filepath"
	"runtime"
	"sort"
	"strconv"
	"strings"
	"time"

	"github.com/nulab/autog/zzverif/spec"
)

type Ctx struct {
	Prop, Tier string
	Seed       uint64
	SimBin     string
	RealBin    string
	RaceBin    string
	SeamsPath  string
	Verif      string
	EvPath     string
	Workers    int
	Start      time.Time
	Budgets    spec.Budgets
	Seams      map[string]any
	seamsRaw   []byte

	sim      *Pool
	simFresh *Pool
	real     *Pool
	realFresh *Pool

	Known     []KnownFinding
	knownHit  map[string]bool
	c15Solo     map[string]*spec.Outcome // fresh-process solo references (C15 O1)
	c15SoloRuns int
	Viol      []*Violation
	Trouble   []string
	WallCap   time.Duration
	WallCapHit bool
	Scale     float64
}

type KnownFinding struct {
	Property string `json:"property"`
	Key      string `json:"key"`
	What     string `json:"what"`
	Replay   string `json:"replay,omitempty"`
	Status   string `json:"status"` // open | fixed
	Commit   string `json:"commit,omitempty"`
}

type knownFile struct {
	Findings []KnownFinding `json:"findings"`
}

// ReplayFile is a minimised violation: the jobs to run, the oracle to evaluate, the expected verdict.
type ReplayFile struct {
	Property string      `json:"property"`
	Oracle   string      `json:"oracle"`
	Key      string      `json:"key"`
	What     string      `json:"what"`
	Seed     uint64      `json:"seed"`
	Jobs     []ReplayJob `json:"jobs"`
	Expect   string      `json:"expect"` // fingerprint of the verdict the replay must reproduce
	Note     string      `json:"note,omitempty"`
}

type ReplayJob struct {
	Pool string   `json:"pool"` // sim | simfresh | real | realfresh | race
	Job  spec.Job `json:"job"`
}

type Violation struct {
	Key    string
	What   string
	Replay *ReplayFile
	Path   string
	Count  int
}

// wallCap bounds the main batch of a check: what has not started by then is not evaluated (the evidence says so,
// wall_cap_hit). A cap only ever shortens a run; it never produces a verdict.
func (cx *Ctx) wallCap() time.Duration {
	if cx.Tier == "thorough" {
		return 3 * time.Hour
	}
	return 12 * time.Minute
}

func (cx *Ctx) phase(name string) {
	fmt.Fprintf(os.Stderr, "[%6.1fs] %s\n", time.Since(cx.Start).Seconds(), name)
}

// slowest prints the slowest jobs of a batch (diagnostics on stderr only).
func (cx *Ctx) slowest(rs []JobResult, n int) {
	type sl struct {
		ms float64
		i  int
	}
	var all []sl
	tot := 0.0
	for i, r := range rs {
		if r.Res != nil {
			all = append(all, sl{r.Res.WallMs, i})
			tot += r.Res.WallMs
		}
	}
	sort.Slice(all, func(a, b int) bool { return all[a].ms > all[b].ms })
	fmt.Fprintf(os.Stderr, "  total worker time %.1fs over %d jobs; slowest:\n", tot/1000, len(all))
	for k := 0; k < n && k < len(all); k++ {
		j := rs[all[k].i].Job
		v := ""
		for _, o := range rs[all[k].i].Res.Outcomes {
			v += o.Verdict + "/" + o.Detail + " "
		}
		e := edgesText(j.Calls[0].Edges)
		if len(e) > 100 {
			e = e[:100] + "..."
		}
		fmt.Fprintf(os.Stderr, "   %8.0fms  %d edges  %s  [%s] %s\n", all[k].ms, len(j.Calls[0].Edges), optsText(j.Calls[0].Opts), v, e)
	}
}

func (cx *Ctx) trouble(format string, a ...any) {
	msg := fmt.Sprintf(format, a...)
	cx.Trouble = append(cx.Trouble, msg)
	fmt.Fprintln(os.Stderr, "TROUBLE:", msg)
}

func main() {
	var cx Ctx
	var seedStr, replay string
	flag.StringVar(&cx.Prop, "prop", "", "property id")
	flag.StringVar(&cx.Tier, "tier", "quick", "quick | thorough")
	flag.StringVar(&seedStr, "seed", "1", "VERIF_SEED")
	flag.StringVar(&cx.SimBin, "sim", "", "instrumented worker")
	flag.StringVar(&cx.RealBin, "real", "", "un-instrumented worker")
	flag.StringVar(&cx.RaceBin, "race", "", "un-instrumented -race worker")
	flag.StringVar(&cx.SeamsPath, "seams", "", "seams.json")
	flag.StringVar(&cx.Verif, "verif", "/verif", "verif root")
	flag.StringVar(&replay, "replay", "", "replay file")
	flag.IntVar(&cx.Workers, "workers", runtime.NumCPU(), "worker processes")
	flag.Float64Var(&cx.Scale, "scale", 1, "multiply run counts (experiments)")
	var mode string
	flag.StringVar(&mode, "mode", "", "selftest | calibrate | (empty: check)")
	flag.Parse()
	s, err := strconv.ParseInt(seedStr, 10, 64)
	if err != nil {
		u, err2 := strconv.ParseUint(seedStr, 10, 64)
		if err2 != nil {
			fmt.Fprintln(os.Stderr, "bad seed:", seedStr)
			os.Exit(2)
		}
		s = int64(u)
	}
	cx.Seed = uint64(s)
	cx.Start = time.Now()
	cx.EvPath = filepath.Join(cx.Verif, "evidence", cx.Prop+".json")
	if d := os.Getenv("VERIF_EVIDENCE_DIR"); d != "" {
		// experiments (mutants, seeded changes, clones of /repo) must not overwrite the evidence of the registered checks
		cx.EvPath = filepath.Join(d, cx.Prop+".json")
	}
	cx.knownHit = map[string]bool{}
	cx.Budgets = budgetFor(40, 40)
	if b, err := os.ReadFile(cx.SeamsPath); err == nil {
		cx.seamsRaw = b
		json.Unmarshal(b, &cx.Seams)
	} else {
		fmt.Fprintln(os.Stderr, "cannot read seams:", err)
		os.Exit(2)
	}
	cx.sim = newPool(cx.SimBin, []string{"-seams", cx.SeamsPath}, cx.Workers, false, 1500*time.Second)
	cx.simFresh = newPool(cx.SimBin, []string{"-seams", cx.SeamsPath}, cx.Workers, true, 1500*time.Second)
	cx.real = newPool(cx.RealBin, []string{"-real", "-seams", cx.SeamsPath}, cx.Workers, false, 20*time.Second)
	cx.realFresh = newPool(cx.RealBin, []string{"-real", "-seams", cx.SeamsPath}, cx.Workers, true, 20*time.Second)
	// the simulated workers run one goroutine at a time; two Ps are plenty (GC helper)
	cx.sim.Env = []string{"GOMAXPROCS=2"}
	cx.simFresh.Env = []string{"GOMAXPROCS=2"}
	defer func() { cx.sim.Close(); cx.real.Close() }()
	cx.loadKnown()

	if replay != "" {
		os.Exit(cx.doReplay(replay))
	}
	if mode == "selftest" {
		os.Exit(cx.selftest())
	}
	// per-job wall-clock backstop (environment trouble when it fires, never a verdict): C01 budgets allow runs of many
	// minutes; the other checks use small budgets, so a job that is silent for minutes is stuck outside the simulator's
	// control (e.g. an unowned blocking operation inside the library)
	switch cx.Prop {
	case "C01":
		cx.sim.Timeout, cx.simFresh.Timeout = 3600*time.Second, 3600*time.Second
	default:
		cx.sim.Timeout, cx.simFresh.Timeout = 400*time.Second, 400*time.Second
	}
	switch cx.Prop {
	case "C07":
		cx.runC07()
	case "C01":
		cx.runC01()
	case "C15":
		cx.runC15()
	case "C18":
		cx.runC18()
	default:
		fmt.Fprintln(os.Stderr, "unknown property", cx.Prop)
		os.Exit(2)
	}
	code := cx.finish()
	cx.sim.Close()
	cx.real.Close()
	os.Exit(code)
}

func (cx *Ctx) loadKnown() {
	b, err := os.ReadFile(filepath.Join(cx.Verif, "known_findings.json"))
	if err != nil {
		return
	}
	var kf knownFile
	if err := json.Unmarshal(b, &kf); err != nil {
		fmt.Fprintln(os.Stderr, "bad known_findings.json:", err)
		os.Exit(2)
	}
	for _, f := range kf.Findings {
		if f.Property == cx.Prop {
			cx.Known = append(cx.Known, f)
		}
	}
}

func (cx *Ctx) isKnown(key string) *KnownFinding {
	for i := range cx.Known {
		if cx.Known[i].Status == "open" && cx.Known[i].Key == key {
			return &cx.Known[i]
		}
	}
	return nil
}

// report registers a violation (deduplicated by key). The first instance per key carries the replay.
func (cx *Ctx) report(key, what string, rf *ReplayFile) {
	for _, v := range cx.Viol {
		if v.Key == key {
			v.Count++
			return
		}
	}
	v := &Violation{Key: key, What: what, Replay: rf, Count: 1}
	cx.Viol = append(cx.Viol, v)
}

func (cx *Ctx) hasViolation(key string) bool {
	for _, v := range cx.Viol {
		if v.Key == key {
			return true
		}
	}
	return false
}

func safeName(s string) string {
	var b strings.Builder
	for _, r := range s {
		switch {
		case r >= 'a' && r <= 'z', r >= 'A' && r <= 'Z', r >= '0' && r <= '9':
			b.WriteRune(r)
		default:
			b.WriteByte('_')
		}
	}
	out := b.String()
	for strings.Contains(out, "__") {
		out = strings.ReplaceAll(out, "__", "_")
	}
	if len(out) > 80 {
		out = out[:80]
	}
	return strings.Trim(out, "_")
}

// finish prints known findings / violations, writes replay files, returns the exit code.
func (cx *Ctx) finish() int {
	// A violation that was reproduced and minimised stands on its own, whatever else went wrong in the run: it is
	// printed and the exit code is 1. Trouble without any confirmed violation is exit 2 (never a VIOLATION).
	confirmed := 0
	for _, v := range cx.Viol {
		if v.Replay != nil && cx.isKnown(v.Key) == nil {
			confirmed++
		}
	}
	if len(cx.Trouble) > 0 {
		fmt.Printf("HARNESS-TROUBLE property=%s: %d problem(s); first: %s\n", cx.Prop, len(cx.Trouble), cx.Trouble[0])
		if confirmed == 0 {
			return 2
		}
	}
	exit := 0
	dir := filepath.Join(cx.Verif, "out", "replays")
	os.MkdirAll(dir, 0o755)
	sort.SliceStable(cx.Viol, func(i, j int) bool { return cx.Viol[i].Key < cx.Viol[j].Key })
	for _, v := range cx.Viol {
		if k := cx.isKnown(v.Key); k != nil {
			if !cx.knownHit[v.Key] {
				cx.knownHit[v.Key] = true
				fmt.Printf("KNOWN-FINDING: property=%s %s [key: %s] (%d instance(s) this run)\n", cx.Prop, k.What, v.Key, v.Count)
			}
			continue
		}
		path := filepath.Join(dir, fmt.Sprintf("%s_%s_seed%d.json", cx.Prop, safeName(v.Key), cx.Seed))
		if v.Replay != nil {
			v.Replay.Seed = cx.Seed
			b, _ := json.MarshalIndent(v.Replay, "", " ")
			os.WriteFile(path, b, 0o644)
		} else {
			os.WriteFile(path, []byte(fmt.Sprintf("{\"property\":%q,\"key\":%q,\"what\":%q,\"note\":\"no minimised replay available\"}\n", cx.Prop, v.Key, v.What)), 0o644)
		}
		v.Path = path
		fmt.Printf("violation: %s (%d instance(s))\n  key: %s\n", v.What, v.Count, v.Key)
		fmt.Printf("VIOLATION property=%s replay=%s\n", cx.Prop, path)
		exit = 1
	}
	if exit == 0 {
		fmt.Printf("OK property=%s tier=%s seed=%d: held on everything explored (%.1fs)\n", cx.Prop, cx.Tier, cx.Seed, time.Since(cx.Start).Seconds())
	}
	return exit
}

// replayKnown re-runs the stored replay of every open known finding of this property.
func (cx *Ctx) replayKnown() (confirmed []string) {
	confirmed = []string{}
	for _, k := range cx.Known {
		if k.Status != "open" || k.Replay == "" {
			continue
		}
		rf, err := loadReplay(filepath.Join(cx.Verif, k.Replay))
		if err != nil {
			cx.trouble("known finding %q: cannot load replay: %v", k.Key, err)
			continue
		}
		violated, key, _, _ := cx.evalReplay(rf)
		if violated && key == k.Key {
			if !cx.knownHit[k.Key] {
				cx.knownHit[k.Key] = true
				fmt.Printf("KNOWN-FINDING: property=%s %s [key: %s] (stored replay %s reproduces)\n", cx.Prop, k.What, k.Key, k.Replay)
			}
			confirmed = append(confirmed, k.Key)
		} else {
			fmt.Printf("note: known finding no longer reproduces from its stored replay: property=%s key=%s (got violated=%v key=%s)\n", cx.Prop, k.Key, violated, key)
		}
	}
	return
}

// runCorpus evaluates every committed regression spec of this property (corpus/<prop>_*.json: minimised inputs of
// defects found earlier, repaired since). A corpus entry is a replay file; it must NOT violate its oracle.
func (cx *Ctx) runCorpus() (n int) {
	files, _ := filepath.Glob(filepath.Join(cx.Verif, "corpus", cx.Prop+"_*.json"))
	sort.Strings(files)
	for _, f := range files {
		rf, err := loadReplay(f)
		if err != nil {
			cx.trouble("corpus %s: %v", f, err)
			continue
		}
		n++
		if v, key, what, fp := cx.evalReplay(rf); v {
			rf.Key, rf.What, rf.Expect = key, what, fp
			cx.report(key, "regression corpus "+filepath.Base(f)+": "+what, rf)
		}
	}
	return n
}

func loadReplay(path string) (*ReplayFile, error) {
	b, err := os.ReadFile(path)
	if err != nil {
		return nil, err
	}
	var rf ReplayFile
	if err := json.Unmarshal(b, &rf); err != nil {
		return nil, err
	}
	return &rf, nil
}

func (cx *Ctx) poolFor(name string) *Pool {
	switch name {
	case "sim":
		return cx.sim
	case "simfresh":
		return cx.simFresh
	case "real":
		return cx.real
	case "realfresh":
		return cx.realFresh
	case "race":
		return cx.racePool()
	case "simfresh-env1", "simfresh-env2":
		// a fresh simulated worker process whose machine / environment (what runtime.NumCPU, os.Getenv, ... answer while
		// packages are initialised, before any call runs) differs from the canonical one
		p := *cx.simFresh
		p.Env = append(append([]string{}, p.Env...), "VERIF_SIM_ENV="+map[string]string{"simfresh-env1": "1", "simfresh-env2": "7919"}[name])
		return &p
	}
	return nil
}

func (cx *Ctx) racePool() *Pool {
	return &Pool{Bin: cx.RaceBin, Args: []string{"-real", "-seams", cx.SeamsPath}, N: 1, Fresh: true, Timeout: 600 * time.Second,
		Env: []string{"GORACE=halt_on_error=0"}}
}

// evalReplay runs a replay file's jobs (each in a fresh worker) and evaluates its oracle.
func (cx *Ctx) evalReplay(rf *ReplayFile) (violated bool, key, what, fingerprint string) {
	var results []JobResult
	for i := range rf.Jobs {
		if rf.Jobs[i].Pool == "none" {
			results = append(results, JobResult{}) // placeholder: nothing to run in this slot
			continue
		}
		p := cx.poolFor(rf.Jobs[i].Pool)
		if p == nil {
			cx.trouble("replay: unknown pool %q", rf.Jobs[i].Pool)
			return
		}
		fp := *p
		fp.Fresh = true
		fp.N = 1
		j := rf.Jobs[i].Job
		r := fp.Run([]*spec.Job{&j}, nil)
		results = append(results, r[0])
	}
	return cx.oracle(rf.Oracle, results)
}

func (cx *Ctx) doReplay(path string) int {
	rf, err := loadReplay(path)
	if err != nil {
		fmt.Fprintln(os.Stderr, "cannot load replay:", err)
		return 2
	}
	if rf.Property != cx.Prop && cx.Prop != "" {
		fmt.Fprintf(os.Stderr, "replay file is for property %s, not %s\n", rf.Property, cx.Prop)
		return 2
	}
	cx.Prop = rf.Property
	violated, key, what, fp := cx.evalReplay(rf)
	if len(cx.Trouble) > 0 {
		return 2
	}
	if !violated {
		fmt.Printf("replay: NOT reproduced (property %s held on this replay)\n", rf.Property)
		return 0
	}
	fmt.Printf("replay: reproduced: %s\n  key: %s\n", what, key)
	if key != rf.Key {
		fmt.Printf("  note: key differs from the recorded one (%s)\n", rf.Key)
	}
	if rf.Expect != "" {
		if fp == rf.Expect {
			fmt.Println("  exact: verdict fingerprint matches the recorded one")
		} else {
			fmt.Printf("  note: verdict fingerprint %s differs from the recorded %s\n", fp, rf.Expect)
		}
	}
	fmt.Printf("VIOLATION property=%s replay=%s\n", rf.Property, path)
	return 1
}

// ---------------------------------------------------------------------------------------------
// evidence

type Evidence struct {
	PropertyID  string         `json:"property_id"`
	Tier        string         `json:"tier"`
	Seed        int64          `json:"seed"`
	Level       string         `json:"level"`
	Coverage    map[string]any `json:"coverage"`
	Assumptions []string       `json:"assumptions"`
	WallS       float64        `json:"wall_s"`
	Violations  int            `json:"violations"`
}

func (cx *Ctx) writeEvidence(cov map[string]any, assumptions []string) {
	nv := 0
	for _, v := range cx.Viol {
		if cx.isKnown(v.Key) == nil {
			nv++
		}
	}
	cov["seams"] = cx.seamSummary()
	cov["wall_cap_hit"] = cx.WallCapHit
	cov["workers"] = cx.Workers
	cov["real_vs_stub"] = map[string]string{
		"library (all packages of nulab/autog)": "real code, instrumented copy of /repo's working tree",
		"map iteration order":                   "simulated (owned by the adversary)",
		"wall clock / math/rand globals":        "simulated (run-spec values)",
		"goroutine scheduling of callers":       "simulated (cooperative scheduler) in the simulated part; real in the adjunct runs",
		"Monitor / Source callbacks":            "harness stubs driven by the run spec",
	}
	// self-check against what EVIDENCE.schema.json demands of an exploration-level file: an evidence file that would not
	// validate is harness trouble, never a silent success
	asInt := func(v any) int {
		switch x := v.(type) {
		case int:
			return x
		case int64:
			return int(x)
		case uint64:
			return int(x)
		case float64:
			return int(x)
		}
		return -1
	}
	if cx.Scale >= 1 {
		if n := asInt(cov["evaluations"]); n < 1 {
			cx.trouble("evidence: coverage.evaluations = %v (must be a measured count >= 1)", cov["evaluations"])
		}
		if n := asInt(cov["distinct_nontrivial"]); n < 2 {
			cx.trouble("evidence: coverage.distinct_nontrivial = %v (must be a measured count >= 2)", cov["distinct_nontrivial"])
		}
		if s, ok := cov["samples"].([]any); !ok || len(s) == 0 {
			cx.trouble("evidence: coverage.samples is empty")
		}
		if s, ok := cov["rule"].(string); !ok || s == "" {
			cx.trouble("evidence: coverage.rule is missing")
		}
	}
	ev := Evidence{PropertyID: cx.Prop, Tier: cx.Tier, Seed: int64(cx.Seed), Level: "exploration", Coverage: cov,
		Assumptions: assumptions, WallS: time.Since(cx.Start).Seconds(), Violations: nv}
	b, err := json.MarshalIndent(ev, "", " ")
	if err != nil {
		cx.trouble("evidence: %v", err)
		return
	}
	os.MkdirAll(filepath.Dir(cx.EvPath), 0o755)
	if err := os.WriteFile(cx.EvPath, b, 0o644); err != nil {
		cx.trouble("evidence: %v", err)
	}
}

func (cx *Ctx) seamSummary() map[string]any {
	out := map[string]any{}
	for _, k := range []string{"range_sites", "vars", "accesses", "clock_entropy_sites", "sync_sites", "unowned"} {
		out[k] = cx.Seams[k]
	}
	if f, ok := cx.Seams["funcs"].([]any); ok {
		out["functions_instrumented"] = len(f)
	}
	if f, ok := cx.Seams["tick_sites"].([]any); ok {
		out["loop_tick_sites"] = len(f)
	}
	out["alloc_sites"] = cx.Seams["alloc_sites"]
	return out
}

func (cx *Ctx) unownedSeams() []string {
	var out []string
	if u, ok := cx.Seams["unowned"].([]any); ok {
		for _, x := range u {
			if m, ok := x.(map[string]any); ok {
				out = append(out, fmt.Sprintf("%v@%v", m["kind"], m["pos"]))
			}
		}
	}
	return out
}

func (cx *Ctx) count(quick, thorough int) int {
	n := quick
	if cx.Tier == "thorough" {
		n = thorough
	}
	n = int(float64(n) * cx.Scale)
	if n < 1 {
		n = 1
	}
	return n
}

func sortedKeys[V any](m map[string]V) []string {
	ks := make([]string, 0, len(m))
	for k := range m {
		ks = append(ks, k)
	}
	sort.Strings(ks)
	return ks
}
