package main

import (
	"fmt"
	"os"
	"sort"
	"time"

	"github.com/nulab/autog/zzverif/spec"
)

// C07 — Layout is a deterministic, side-effect-free function of its arguments.

func c07Resolutions(r *rng, k int) []spec.Resolution {
	res := []spec.Resolution{
		{Adv: "identity"},
		{Adv: "reverse", T0: 1_700_000_000_000_000_000 + int64(r.intn(1<<30)), Rate: 100_000, StackDepth: 700}, // a 100x slower machine, called from deep inside the application
		{Adv: "rotate", AdvSeed: r.next(), Entropy: r.next(), Rate: 20, StackDepth: 40},                         // a 50x faster one
	}
	for len(res) < k {
		x := spec.Resolution{Adv: "seeded", AdvSeed: r.next()}
		if r.chance(50) {
			x.T0 = int64(r.next() >> 2)
		}
		if r.chance(50) {
			x.Entropy = r.next()
		}
		if r.chance(50) {
			x.Rate = pick(r, int64(10), 200, 5_000, 50_000, 100_000) // real loop iterations take 10-30 ns: up to ~5000x slower than this machine
		}
		if r.chance(50) {
			x.StackDepth = pick(r, 3, 64, 300, 1000, 2500) // how deep the caller's own stack is when it calls Layout
		}
		res = append(res, x)
	}
	return res
}

func (cx *Ctx) runC07() {
	nSpecs := cx.count(1500, 60000)
	k := 6
	nHist := cx.count(100, 4000)
	nReal := cx.count(150, 2000)
	realProcs := 3
	if cx.Tier == "thorough" {
		k = 24
		realProcs = 8
	}
	gc := genCfg{allowRandomGreedy: false, nastyPct: 5, multiPct: 35, bigPct: 3, veryWidePct: 10, extremePct: 3}
	// C07 compares results; runs that do not finish within a modest simulated-time budget are skipped
	// (counted as BUDGET in the evidence), whether they ever finish is C01's question.
	cx.Budgets.Ticks = 20_000_000
	cx.Budgets.Frame = 2_000_000
	known := cx.replayKnown()
	corpusN := cx.runCorpus()

	r := rng{s: mix(cx.Seed, 0xC07)}
	jobs := make([]*spec.Job, nSpecs)
	fams := make([]string, nSpecs)
	for i := range jobs {
		es, fam := genGraph(&r, gc)
		c := spec.Call{Edges: es, Opts: genOptions(&r, es, gc)}
		jobs[i] = &spec.Job{ID: i, Kind: "multi", Calls: []spec.Call{c}, Res: c07Resolutions(&r, k), Budgets: cx.Budgets}
		fams[i] = fam
	}
	cx.phase("C07: main batch")
	// one fresh worker process per spec: the K resolutions of a spec run one after the other in that process, so that
	// whatever is found replays exactly (no dependence on what a pooled worker did before)
	batch := *cx.simFresh
	batch.Deadline = time.Now().Add(cx.wallCap())
	results := batch.Run(jobs, nil)
	cx.phase("C07: analysing")
	cx.slowest(results, 12)

	// ---- (a) resolution invariance, (c) arguments untouched
	evals, clockVaried, entropyVaried := 0, 0, 0
	distinct := map[string]bool{}
	siteStats := map[string]*[3]int{}
	permKinds := map[string]int{}
	sitePermKinds := map[string]bool{}
	verdicts := map[string]int{}
	famCount := map[string]int{}
	var ticks uint64
	var samples []any
	shrunk := 0
	for i, jr := range results {
		ocs := cx.multiOutcomes(cx.sim, jr)
		if ocs == nil {
			continue
		}
		famCount[fams[i]]++
		nontrivial := false
		for j, o := range ocs {
			if j < len(jr.Job.Res) {
				if jr.Job.Res[j].T0 != 0 {
					clockVaried++
				}
				if jr.Job.Res[j].Entropy != 0 {
					entropyVaried++
				}
			}
			evals++
			ticks += o.Ticks
			verdicts[o.Verdict]++
			for s, v := range o.SiteExec {
				st := siteStats[s]
				if st == nil {
					st = &[3]int{}
					siteStats[s] = st
				}
				st[0] += v[0]
				st[1] += v[1]
				st[2] += v[2]
				if v[2] > 0 {
					nontrivial = true
				}
			}
			for kd, n := range o.PermKinds {
				permKinds[kd] += n
			}
		}
		if nontrivial {
			distinct[callKey(&jr.Job.Calls[0])] = true
		}
		if len(samples) < 5 && nontrivial {
			samples = append(samples, map[string]any{"family": fams[i], "edges": edgesText(jr.Job.Calls[0].Edges), "options": optsText(jr.Job.Calls[0].Opts),
				"resolutions": len(jr.Job.Res), "result_hashes": hashesOf(ocs)})
		}
		// oracle (c)
		jrc := jr
		jrc.Res = &spec.Result{Outcomes: ocs}
		if v, key, what, fp := cx.oracleArgs([]JobResult{jrc}); v {
			rf := &ReplayFile{Property: "C07", Oracle: "c07.args", Key: key, What: what, Jobs: []ReplayJob{{Pool: "sim", Job: *jr.Job}}, Expect: fp}
			cx.report(key, what, rf)
		}
		// oracle (a)
		v, _, _, _ := cx.oracleResolutions([]JobResult{jrc})
		if !v {
			continue
		}
		// which resolution differs first
		j := 1
		for ; j < len(ocs); j++ {
			if ocs[j].Verdict != "BUDGET" && (ocs[j].Hash != ocs[0].Hash || ocs[j].Verdict != ocs[0].Verdict) {
				break
			}
		}
		if shrunk >= 40 {
			cx.report("resolution-dependent (unshrunk)", "more order-dependent cases than the shrink budget covers", nil)
			continue
		}
		shrunk++
		cx.c07Attribute(jr.Job, j)
	}
	_ = sitePermKinds

	// ---- (a') process environment: a sample of the specs again, identity resolution, in fresh processes on two other
	// simulated machines (what runtime.NumCPU / os.Getenv / ... answered when the packages were initialised)
	cx.phase("C07: process environments")
	envStats := cx.c07Env(jobs, results, cx.count(200, 6000))

	// ---- (b) history independence
	cx.phase("C07: histories")
	histStats := cx.c07Histories(&r, nHist, gc)
	cx.phase("C07: long histories")
	longStats := cx.c07LongHistories(&r, cx.count(64, 1600), gc)

	// ---- (d) real-runtime adjunct + fidelity
	cx.phase("C07: real-runtime adjunct")
	realStats := cx.c07Real(&r, nReal, realProcs, gc, results)

	// ---- determinism self-test of the simulator (small sample, every run)
	cx.phase("C07: determinism sample")
	st, suspects := cx.determinismSample(jobs, results, 30)
	for _, si := range suspects {
		// the pooled worker's result differs from a fresh process: the result depends on process history.
		// Make it reproducible: a synthesized history of the preceding specs followed by this one, in a fresh process.
		var calls []spec.Call
		for k := si - 12; k <= si; k++ {
			if k >= 0 {
				calls = append(calls, jobs[k].Calls[0])
			}
		}
		if cx.hasViolation("process-dependent") || cx.processDependent(jobs[si].Calls[0], jobs[si].Res[0]) {
			continue // fresh processes disagree among themselves: no history is needed to explain the difference
		}
		if v, _, _, _ := cx.historyViolates(calls); v {
			cx.c07ShrinkHistory(&spec.Job{Kind: "history", Calls: calls})
		} else {
			cx.trouble("Layout(%s; %s) returned a different result on a pooled worker than in a fresh process (process-history dependence), but no synthesized history reproduces it",
				edgesText(jobs[si].Calls[0].Edges), optsText(jobs[si].Calls[0].Opts))
		}
	}

	sites := map[string]any{}
	for _, s := range sortedKeys(siteStats) {
		v := siteStats[s]
		sites[s] = map[string]int{"executions": v[0], "executions_with_2plus_keys": v[1], "non_identity_permutations": v[2]}
	}
	wall := time.Since(cx.Start).Seconds()
	cov := map[string]any{
		"evaluations":         evals,
		"distinct_nontrivial": len(distinct),
		"rule": "specs = seeded graph families (random multigraphs, DAGs with duplicate edges, trees, paths, 2-cycle clusters, hub-reverse, self-loops, diamonds, wide, long edges, slack ties; 35% multi-component unions) x the deterministic option grid; " +
			"each spec is executed under K resolutions (identity, pure reverse, pure rotate, seeded mixes; clock origin and entropy varied) and every outcome must be byte-identical to resolution 0. " +
			"evaluations = simulated Layout executions. A spec is non-trivial iff at least one map-range execution had >=2 keys and received a non-identity permutation; distinct = by canonical (edge list, options) text.",
		"samples":                    samples,
		"specs":                      nSpecs,
		"resolutions_per_spec":       k,
		"sim_ticks_total":            ticks,
		"runs_per_hour":              int(float64(evals) / wall * 3600),
		"verdicts":                   verdicts,
		"families":                   famCount,
		"sites":                      sites,
		"permutations_by_kind":       permKinds,
		"faults_fired":               map[string]int{"map-order permutation (non-identity)": sumNonIdentity(permKinds), "runs with a non-zero clock origin": clockVaried, "runs with non-default entropy": entropyVaried},
		"histories":                  histStats,
		"long_histories":             longStats,
		"process_environments":       envStats,
		"real_runtime_adjunct":       realStats,
		"determinism_selftest":       st,
		"regression_corpus_specs":     corpusN,
		"known_findings_confirmed":   known,
		"violation_keys":             violKeys(cx),
		"worker_processes_spawned":   spawnedTotal,
	}
	cx.writeEvidence(cov, []string{
		"the instrumenter owns every range-over-map statement, maps.Keys/Values/All call, time.Now and math/rand global in the module (inventory in coverage.seams; unowned constructs are listed there and covered only by the real-runtime adjunct)",
		"any permutation of a map range is a legal execution (Go spec); Ordered snapshots keys at loop start, skips entries deleted before they are reached and does not produce entries inserted during the loop",
		"seeded search, bounded sizes: a clean run is evidence, not proof",
	})
}

func hashesOf(ocs []spec.Outcome) []string {
	var h []string
	for _, o := range ocs {
		h = append(h, o.Verdict+":"+o.Hash)
	}
	return h
}

func sumNonIdentity(m map[string]int) int {
	n := 0
	for k, v := range m {
		if k != "identity" {
			n += v
		}
	}
	return n
}

func violKeys(cx *Ctx) []string {
	var ks []string
	for _, v := range cx.Viol {
		ks = append(ks, fmt.Sprintf("%s (x%d)", v.Key, v.Count))
	}
	sort.Strings(ks)
	return ks
}

// differs runs the call under two resolutions, each in a fresh worker process (so that nothing but the resolution
// differs between the two executions), and tells whether the outcomes differ.
func (cx *Ctx) differs(c spec.Call, a, b spec.Resolution, full bool) (bool, []spec.Outcome) {
	ja := &spec.Job{ID: 1, Kind: "multi", Calls: []spec.Call{c}, Res: []spec.Resolution{a}, Budgets: cx.Budgets, WantFull: full}
	jb := &spec.Job{ID: 2, Kind: "multi", Calls: []spec.Call{c}, Res: []spec.Resolution{b}, Budgets: cx.Budgets, WantFull: full}
	two := *cx.simFresh
	two.N = 2
	rs := two.Run([]*spec.Job{ja, jb}, nil)
	var ocs []spec.Outcome
	for _, r := range rs {
		o := cx.multiOutcomes(cx.simFresh, r)
		if len(o) != 1 {
			return false, nil
		}
		ocs = append(ocs, o[0])
	}
	for _, o := range ocs {
		if o.Verdict == "HARNESS" || o.Verdict == "TIMEOUT" {
			return false, nil
		}
	}
	if ocs[0].Verdict == "BUDGET" || ocs[1].Verdict == "BUDGET" {
		return false, ocs
	}
	return ocs[0].Hash != ocs[1].Hash || ocs[0].Verdict != ocs[1].Verdict, ocs
}

// c07Attribute finds what the difference between resolution 0 and resolution j depends on,
// minimises it and reports it.
func (cx *Ctx) c07Attribute(job *spec.Job, j int) {
	c := job.Calls[0]
	r0, rj := job.Res[0], job.Res[j]
	deadline := time.Now().Add(45 * time.Second)

	// The K resolutions of a multi job run one after the other in one worker process. If the two resolutions agree
	// when each runs in a fresh process, the difference seen came from the process history, not from the resolution.
	if d, _ := cx.differs(c, r0, rj, false); !d {
		calls := make([]spec.Call, j+1)
		for i := range calls {
			calls[i] = c
		}
		if v, rf, key, what := cx.historyViolatesRes(calls, job.Res[:j+1]); v {
			if cx.hasViolation(key) {
				cx.report(key, what, nil)
				return
			}
			// fewest repetitions that still show it
			for n := 2; n <= j; n++ {
				if v2, rf2, key2, what2 := cx.historyViolatesRes(calls[:n], append(append([]spec.Resolution{}, job.Res[:n-1]...), job.Res[j])); v2 {
					rf, key, what = rf2, key2, what2
					break
				}
			}
			cx.report(key, what, rf)
			return
		}
		cx.trouble("Layout(%s; %s) gave different results under two resolutions within one process but not in fresh processes, and the repetition does not reproduce as a history",
			edgesText(c.Edges), optsText(c.Opts))
		return
	}

	// the depth of the caller's stack only?
	if rj.StackDepth != r0.StackDepth {
		dOnly := r0
		dOnly.StackDepth = rj.StackDepth
		if d, _ := cx.differs(c, r0, dOnly, false); d {
			sc := shrinkCall(c, func(t spec.Call) bool { d, _ := cx.differs(t, r0, dOnly, false); return d }, 30*time.Second)
			cx.c07Report(sc, r0, dOnly)
			return
		}
	}
	// clock / entropy only?
	plain := rj
	plain.Adv, plain.AdvSeed, plain.Overrides = "identity", 0, nil
	if d, _ := cx.differs(c, r0, plain, false); d {
		tOnly := plain
		tOnly.Entropy = r0.Entropy
		eOnly := plain
		eOnly.T0, eOnly.Rate = r0.T0, r0.Rate
		final := plain
		if d2, _ := cx.differs(c, r0, tOnly, false); d2 {
			final = tOnly
		} else if d3, _ := cx.differs(c, r0, eOnly, false); d3 {
			final = eOnly
		}
		sc := shrinkCall(c, func(t spec.Call) bool { d, _ := cx.differs(t, r0, final, false); return d }, 30*time.Second)
		cx.c07Report(sc, r0, final)
		return
	}

	// map order: obtain the permutations actually applied under resolution j
	mo := rj
	mo.T0, mo.Rate, mo.Entropy = r0.T0, r0.Rate, r0.Entropy
	if d, _ := cx.differs(c, r0, mo, false); !d {
		// needs the combination; report unshrunk
		cx.c07Report(c, r0, rj)
		return
	}
	pj := &spec.Job{ID: 1, Kind: "multi", Calls: []spec.Call{c}, Res: []spec.Resolution{mo}, Budgets: cx.Budgets, RecordPerms: true}
	one := *cx.simFresh
	one.N = 1
	prs := one.Run([]*spec.Job{pj}, nil)
	pocs := cx.multiOutcomes(cx.sim, prs[0])
	var ovs []spec.Override
	if len(pocs) == 1 {
		for _, p := range pocs[0].Perms {
			ovs = append(ovs, spec.Override{Site: p.Site, Occ: p.Occ, Kind: "perm", Perm: p.Perm})
		}
	}
	explicit := spec.Resolution{Adv: "overrides", Overrides: ovs}
	if d, _ := cx.differs(c, r0, explicit, false); !d || len(ovs) == 0 {
		// cannot be reproduced from recorded permutations (e.g. the worker died): keep the seeded form
		sc := shrinkCall(c, func(t spec.Call) bool { d, _ := cx.differs(t, r0, mo, false); return d }, 30*time.Second)
		cx.c07Report(sc, r0, mo)
		return
	}
	ovs = ddmin(ovs, func(o []spec.Override) bool {
		d, _ := cx.differs(c, r0, spec.Resolution{Adv: "overrides", Overrides: o}, false)
		return d
	}, deadline)
	// prefer a simple, size-independent form of the culprit: every execution of that site reversed / rotated / swapped
	final := spec.Resolution{Adv: "overrides", Overrides: ovs}
	if len(ovs) >= 1 && sameSite(ovs) {
		for _, cand := range []spec.Override{
			{Site: ovs[0].Site, Occ: -1, Kind: "reverse"},
			{Site: ovs[0].Site, Occ: -1, Kind: "rotate", Arg: 1},
			{Site: ovs[0].Site, Occ: -1, Kind: "swap", Arg: 0},
			{Site: ovs[0].Site, Occ: ovs[0].Occ, Kind: "reverse"},
			{Site: ovs[0].Site, Occ: ovs[0].Occ, Kind: "rotate", Arg: 1},
		} {
			cr := spec.Resolution{Adv: "overrides", Overrides: []spec.Override{cand}}
			if d, _ := cx.differs(c, r0, cr, false); d {
				final = cr
				break
			}
		}
	}
	key := "resolution-dependent"
	if sameSite(final.Overrides) {
		key = "order-dependent | " + final.Overrides[0].Site
	}
	if cx.hasViolation(key) {
		cx.report(key, "", nil) // count only; one minimised replay per culprit site is enough
		return
	}
	sc := c
	if len(final.Overrides) == 1 && final.Overrides[0].Occ == -1 {
		sc = shrinkCall(c, func(t spec.Call) bool { d, _ := cx.differs(t, r0, final, false); return d }, 30*time.Second)
	} else {
		// occurrence-specific override: shrinking the graph shifts occurrences; try, accept only exact reproductions
		sc = shrinkCall(c, func(t spec.Call) bool { d, _ := cx.differs(t, r0, final, false); return d }, 20*time.Second)
	}
	cx.c07Report(sc, r0, final)
}

func (cx *Ctx) c07Report(c spec.Call, r0, rj spec.Resolution) {
	job := spec.Job{ID: 0, Kind: "multi", Calls: []spec.Call{c}, Res: []spec.Resolution{r0, rj}, Budgets: cx.Budgets, WantFull: true}
	one := *cx.simFresh
	one.N = 1
	rs := one.Run([]*spec.Job{&job}, nil)
	v, key, what, fp := cx.oracleResolutions(rs)
	if !v {
		cx.trouble("a shrunk C07 violation did not reproduce (edges %s)", edgesText(c.Edges))
		return
	}
	rf := &ReplayFile{Property: "C07", Oracle: "c07.resolutions", Key: key, What: what, Jobs: []ReplayJob{{Pool: "simfresh", Job: job}}, Expect: fp}
	cx.report(key, what, rf)
}

// ---------------------------------------------------------------------------------------------
// (b) history independence

// sameAsResolved returns call i of a history as a self-contained call with freshly built arguments: the call it reuses
// the argument values of, with the caller's in-place edits applied.
func sameAsResolved(calls []spec.Call, i int) spec.Call {
	c := calls[i]
	if c.SameAs == nil {
		return c
	}
	b := calls[*c.SameAs]
	b.SameAs = nil
	if len(c.EditSizes) > 0 && b.Opts.Sizes != nil {
		// the edits are applied one after the other, exactly as the worker applies them to the caller's map
		out := append([]spec.NodeSize{}, b.Opts.Sizes...)
		for _, e := range c.EditSizes {
			found := false
			var next []spec.NodeSize
			for _, x := range out {
				if x.ID == e.ID {
					found = true
					if e.W < 0 {
						continue // deleted (every occurrence: the map has one entry per id)
					}
					x.W, x.H = e.W, e.H
				}
				next = append(next, x)
			}
			if !found && e.W >= 0 {
				next = append(next, e)
			}
			out = next
		}
		if out == nil {
			out = []spec.NodeSize{}
		}
		b.Opts.Sizes = out
	}
	if len(c.EditEdges) == len(b.Edges) && len(c.EditEdges) > 0 {
		b.Edges = c.EditEdges
	}
	return b
}

func deepCopyEdges(e [][]string) [][]string {
	out := make([][]string, len(e))
	for i := range e {
		out[i] = append([]string(nil), e[i]...)
	}
	return out
}

func (cx *Ctx) c07Histories(r *rng, n int, gc genCfg) map[string]any {
	var jobs []*spec.Job
	nEdited := 0
	for i := 0; i < n; i++ {
		ncalls := r.between(3, 8)
		var calls []spec.Call
		es, _ := genGraph(r, gc)
		under := spec.Call{Edges: es, Opts: genOptions(r, es, gc)}
		p1 := r.intn(ncalls - 1)
		p2 := p1 + 1 + r.intn(ncalls-p1-1)
		for j := 0; j < ncalls; j++ {
			switch j {
			case p1:
				calls = append(calls, under)
			case p2:
				c := under
				c.SameAs = iptr(p1)
				if len(under.Opts.Sizes) > 0 && r.chance(40) {
					// the caller edits its size map between the two calls (a label got longer, a node lost its size): the
					// reused Option value must read the map as it is NOW
					for k := r.between(1, 2); k > 0; k-- {
						e := under.Opts.Sizes[r.intn(len(under.Opts.Sizes))]
						switch r.intn(5) {
						case 0:
							e.W = -1
						case 1:
							e.W, e.H = 0, 0
						default:
							e.W, e.H = float64(r.between(1, 30)*10), float64(r.between(1, 12)*10)
						}
						c.EditSizes = append(c.EditSizes, e)
					}
					tc := c
					tc.SameAs = iptr(0)
					if t := sameAsResolved([]spec.Call{under, tc}, 1); len(t.Opts.Sizes) == 0 {
						// an emptied map is still passed (WithNodeSize of an empty map), which a spec with no sizes cannot say
						c.EditSizes = nil
					} else {
						nEdited++
					}
				} else if len(under.Edges) >= 2 && r.chance(15) {
					// ... or rewires its edge list in place (same backing arrays, other strings)
					ee := deepCopyEdges(under.Edges)
					i, j := r.intn(len(ee)), r.intn(len(ee))
					if i != j && len(ee[i]) == 2 && len(ee[j]) == 2 && ee[i][1] != ee[j][1] {
						ee[i][1], ee[j][1] = ee[j][1], ee[i][1]
						c.EditEdges = ee
						nEdited++
					}
				}
				calls = append(calls, c)
			default:
				e2, _ := genGraph(r, gc)
				hc := gc
				hc.allowRandomGreedy = true // other calls of the history may use any configuration
				oc := spec.Call{Edges: e2, Opts: genOptions(r, e2, hc)}
				if r.chance(12) {
					// ... or end abnormally: the documented panics on an empty source / a malformed edge
					if r.chance(50) {
						oc.Edges = [][]string{}
					} else {
						oc.Edges[r.intn(len(oc.Edges))] = []string{"x"}
					}
				}
				calls = append(calls, oc)
			}
		}
		jobs = append(jobs, &spec.Job{ID: i, Kind: "history", Calls: calls, Res: []spec.Resolution{{Adv: "identity"}}, Budgets: cx.Budgets})
	}
	// every history runs in a fresh worker process, so that the process history is exactly the history's calls
	hres := cx.simFresh.Run(jobs, nil)
	// references: each deterministic call alone, first call of a fresh process
	var refJobs []*spec.Job
	type refKey struct{ h, c int }
	var refIdx []refKey
	for hi, jr := range hres {
		if jr.Res == nil || jr.Res.Error != "" {
			continue
		}
		for ci := range jr.Job.Calls {
			c := sameAsResolved(jr.Job.Calls, ci)
			if c.Opts.P1 == "greedy-random" || c.NoRef {
				continue
			}
			refJobs = append(refJobs, &spec.Job{ID: len(refJobs), Kind: "multi", Calls: []spec.Call{c}, Res: []spec.Resolution{{Adv: "identity"}}, Budgets: cx.Budgets})
			refIdx = append(refIdx, refKey{hi, ci})
		}
	}
	rres := cx.simFresh.Run(refJobs, nil)
	compared, calls, died := 0, 0, 0
	byHist := map[int]map[int]JobResult{}
	for k, rr := range rres {
		rk := refIdx[k]
		if byHist[rk.h] == nil {
			byHist[rk.h] = map[int]JobResult{}
		}
		byHist[rk.h][rk.c] = rr
	}
	for hi, jr := range hres {
		if jr.Res == nil || jr.Res.Error != "" {
			if jr.Res != nil && jr.Res.Error != "" {
				cx.trouble("history job: %s", jr.Res.Error)
			}
			died++
			continue
		}
		calls += len(jr.Job.Calls)
		// assemble in replay layout: job 0 = history, job i+1 = reference of call i
		set := []JobResult{jr}
		for ci := range jr.Job.Calls {
			if rr, ok := byHist[hi][ci]; ok {
				set = append(set, rr)
				compared++
			} else {
				set = append(set, JobResult{})
			}
		}
		if v, _, _, _ := cx.oracleHistory(set); v {
			// minimise: drop calls of the history that are not needed
			cx.c07ShrinkHistory(jr.Job)
		}
		if v, key, what, fp := cx.oracleArgs([]JobResult{jr}); v {
			rf := &ReplayFile{Property: "C07", Oracle: "c07.args", Key: key, What: what, Jobs: []ReplayJob{{Pool: "sim", Job: *jr.Job}}, Expect: fp}
			cx.report(key, what, rf)
		}
	}
	return map[string]any{"histories": n, "calls": calls, "fresh_process_references_compared": compared, "history_jobs_that_died": died,
		"histories_in_which_the_caller_edits_its_size_map_or_edge_list_between_two_calls_that_reuse_the_same_argument_values": nEdited}
}

func (cx *Ctx) historyViolates(calls []spec.Call) (bool, *ReplayFile, string, string) {
	return cx.historyViolatesRes(calls, nil)
}

// historyViolatesRes: res (optional) gives one resolution per call; the reference of call i runs alone, in a fresh
// process, under the same resolution, so a difference can only come from the history.
func (cx *Ctx) historyViolatesRes(calls []spec.Call, res []spec.Resolution) (bool, *ReplayFile, string, string) {
	hres := []spec.Resolution{{Adv: "identity"}}
	if len(res) == len(calls) {
		hres = res
	}
	job := spec.Job{ID: 0, Kind: "history", Calls: calls, Res: hres, Budgets: cx.Budgets, WantFull: true}
	rj := []ReplayJob{{Pool: "simfresh", Job: job}}
	for i := range calls {
		c := sameAsResolved(calls, i)
		r := spec.Resolution{Adv: "identity"}
		if len(res) == len(calls) {
			r = res[i]
		}
		if c.NoRef {
			// filler of a long history: executed, not compared (the replay layout keeps one reference slot per call)
			rj = append(rj, ReplayJob{Pool: "none"})
			continue
		}
		c.Repeat = 0
		rj = append(rj, ReplayJob{Pool: "simfresh", Job: spec.Job{ID: i + 1, Kind: "multi", Calls: []spec.Call{c}, Res: []spec.Resolution{r}, Budgets: cx.Budgets, WantFull: true}})
	}
	rf := &ReplayFile{Property: "C07", Oracle: "c07.history", Jobs: rj}
	v, key, what, fp := cx.evalReplay(rf)
	rf.Key, rf.What, rf.Expect = key, what, fp
	return v, rf, key, what
}

func (cx *Ctx) c07ShrinkHistory(job *spec.Job) {
	if cx.hasViolation("process-dependent") {
		return // fresh processes disagree with each other anyway: a history is not needed to explain a difference
	}
	for i := range job.Calls {
		c := job.Calls[i]
		if c.NoRef || c.SameAs != nil || c.Opts.P1 == "greedy-random" || len(c.Edges) == 0 {
			continue
		}
		if cx.processDependent(c, spec.Resolution{Adv: "identity"}) {
			return
		}
		if i >= 3 {
			break
		}
	}
	calls := append([]spec.Call{}, job.Calls...)
	// resolve SameAs into explicit copies so that calls can be dropped independently
	for i := range calls {
		if calls[i].SameAs != nil {
			calls[i] = sameAsResolved(job.Calls, i)
		}
	}
	v, rf, key, what := cx.historyViolates(calls)
	if !v {
		// only reproduces with identical argument values reused: keep original
		v2, rf2, key2, what2 := cx.historyViolates(job.Calls)
		if v2 {
			cx.report(key2, what2, rf2)
		} else {
			cx.trouble("a C07 history violation did not reproduce in fresh processes")
		}
		return
	}
	if cx.hasViolation(key) {
		cx.report(key, what, nil)
		return
	}
	deadline := time.Now().Add(40 * time.Second)
	calls = ddmin(calls, func(cs []spec.Call) bool { v, _, _, _ := cx.historyViolates(cs); return v }, deadline)
	// then each remaining call's graph and options
	for i := range calls {
		if time.Now().After(deadline.Add(40 * time.Second)) {
			break
		}
		calls[i] = shrinkCall(calls[i], func(t spec.Call) bool {
			cs := append([]spec.Call{}, calls...)
			cs[i] = t
			v, _, _, _ := cx.historyViolates(cs)
			return v
		}, 15*time.Second)
	}
	v, rf, key, what = cx.historyViolates(calls)
	if v {
		cx.report(key, what, rf)
	}
}

// ---------------------------------------------------------------------------------------------
// (d) real-runtime adjunct (observation of the un-instrumented library) and fidelity of the simulator

func (cx *Ctx) c07Real(r *rng, n, procs int, gc genCfg, simResults []JobResult) map[string]any {
	if cx.RealBin == "" {
		return map[string]any{"skipped": "no real worker"}
	}
	// take the first n specs of the main run whose simulated runs all finished (the real runtime has no
	// budget: an input that hangs would only burn the wall-clock backstop); their simulated outcome is known
	var elig []JobResult
	for _, jr := range simResults {
		if len(elig) >= n {
			break
		}
		ok := jr.Res != nil && jr.Res.Error == "" && len(jr.Res.Outcomes) > 0
		if ok {
			for _, o := range jr.Res.Outcomes {
				if o.Verdict != "OK" && o.Verdict != "PANIC" {
					ok = false
				}
			}
		}
		if ok {
			elig = append(elig, jr)
		}
	}
	simResults = elig
	n = len(elig)
	batch := 25
	var jobs []*spec.Job
	var spans [][2]int
	for a := 0; a < n; a += batch {
		b := a + batch
		if b > n {
			b = n
		}
		var calls []spec.Call
		for i := a; i < b; i++ {
			calls = append(calls, simResults[i].Job.Calls[0])
		}
		for p := 0; p < procs; p++ {
			jobs = append(jobs, &spec.Job{ID: len(jobs), Kind: "stress", Calls: calls, Goroutines: 1, Rounds: 3})
			spans = append(spans, [2]int{a, b})
		}
	}
	// a few large inputs for the real runtime only (not simulated: a 60-node graph costs the instrumented build minutes):
	// code paths guarded by size thresholds (edge lists of 128+, wide layers) and chosen per machine are reached only there
	{
		var big []spec.Call
		for i := 0; i < 3; i++ {
			n := r.between(50, 60)
			var es [][]string
			for v := 1; v < n; v++ {
				es = append(es, edge(r.intn(v), v))
			}
			for len(es) < n+r.between(75, 95) {
				a, b := r.intn(n), r.intn(n)
				if a < b {
					es = append(es, edge(a, b))
				}
			}
			shuffleEdges(r, es)
			big = append(big, spec.Call{Edges: es, Opts: spec.Options{P5: "straight", P1: pick(r, "", "dfs")}})
		}
		for i := 0; i < 1; i++ {
			es := famDAG(r, true)
			if len(es) > 60 {
				es = es[:60]
			}
			big = append(big, spec.Call{Edges: es, Opts: spec.Options{P4: "ns", P5: "noop", FixedSize: &[2]float64{20, 10}}})
		}
		for p := 0; p < procs; p++ {
			jobs = append(jobs, &spec.Job{ID: len(jobs), Kind: "stress", Calls: big, Goroutines: 1, Rounds: 1})
			spans = append(spans, [2]int{-1, -1})
		}
	}
	// the k-th process of every input runs in a different environment: what the result may NOT depend on
	envs := [][]string{
		nil,
		{"GOMAXPROCS=1", "TZ=Pacific/Kiritimati", "LANG=tr_TR.UTF-8", "LC_ALL=tr_TR.UTF-8"},
		{"GOMAXPROCS=3", "TZ=America/St_Johns", "HOME=/nonexistent", "TMPDIR=/nonexistent", "GOGC=10"},
		{"GOMAXPROCS=64", "GODEBUG=asyncpreemptoff=1", "USER=someone-else", "GOGC=400"},
	}
	rs := make([]JobResult, len(jobs))
	for p := 0; p < procs; p++ {
		var sub []*spec.Job
		var at []int
		for i := p; i < len(jobs); i += procs {
			sub = append(sub, jobs[i])
			at = append(at, i)
		}
		pool := *cx.realFresh
		pool.Env = envs[p%len(envs)]
		pool.Timeout = 300 * time.Second
		for k, r := range pool.Run(sub, nil) {
			rs[at[k]] = r
		}
	}
	inputs, fidelityOK, fidelityCmp, timeouts, realCalls := 0, 0, 0, 0, 0
	for g := 0; g < len(rs); g += procs {
		group := rs[g : g+procs]
		a, b := spans[g][0], spans[g][1]
		ok := true
		for _, jr := range group {
			if jr.Res == nil || jr.Res.Error != "" {
				ok = false
				if jr.Timeout || jr.Fatal != "" {
					timeouts++
				}
			}
		}
		if !ok {
			continue // a hanging or dying real call is C01's business
		}
		if a < 0 {
			// the large inputs: compared across processes and within each process, no simulated counterpart
			inputs += len(group[0].Job.Calls)
			realCalls += len(group[0].Job.Calls) * 2 * procs
			if v, key, what, fp := cx.oracleReal(group); v {
				var rj []ReplayJob
				for _, jr := range group {
					rj = append(rj, ReplayJob{Pool: "realfresh", Job: *jr.Job})
				}
				cx.report(key, what, &ReplayFile{Property: "C07", Oracle: "c07.real", Key: key, What: what, Jobs: rj, Expect: fp,
					Note: "observed on the real runtime across processes that differ in GOMAXPROCS / time zone / locale / HOME / GOGC; replay the jobs under those environments"})
			}
			continue
		}
		inputs += b - a
		realCalls += (b - a) * 4 * procs
		if v, key, what, fp := cx.oracleReal(group); v {
			var rj []ReplayJob
			for _, jr := range group {
				rj = append(rj, ReplayJob{Pool: "realfresh", Job: *jr.Job})
			}
			rf := &ReplayFile{Property: "C07", Oracle: "c07.real", Key: key, What: what, Jobs: rj, Expect: fp,
				Note: "observed on the real runtime: reproduction is probabilistic (Go randomises map iteration)"}
			cx.report(key, what, rf)
			continue
		}
		// fidelity: the real runtime is stable on these inputs; the simulator's identity run must agree with it
		for i := a; i < b; i++ {
			so := cx.multiOutcomes(cx.sim, simResults[i])
			if so == nil {
				continue
			}
			allSame := true
			for _, o := range so {
				if o.Hash != so[0].Hash {
					allSame = false
				}
			}
			if !allSame {
				continue // (a) already reports it
			}
			ro := group[0].Res.Solo[i-a]
			fidelityCmp++
			if ro.Hash == so[0].Hash || (ro.Verdict == "PANIC" && so[0].Verdict == "PANIC" && ro.Detail == so[0].Detail) {
				fidelityOK++
			} else if so[0].Verdict == "BUDGET" {
				fidelityOK++ // the real runtime has no budget; nothing to compare
				fidelityCmp--
				fidelityOK--
			} else {
				c := simResults[i].Job.Calls[0]
				cx.trouble("fidelity: instrumented build and un-instrumented build disagree on Layout(%s; %s): sim %s vs real %s",
					edgesText(c.Edges), optsText(c.Opts), describe(so[0]), describe(ro))
			}
		}
	}
	return map[string]any{"inputs": inputs, "fresh_processes_per_input": procs, "in_process_repeats": 4, "real_calls": realCalls,
		"fidelity_compared": fidelityCmp, "fidelity_agree": fidelityOK, "real_jobs_died_or_timed_out": timeouts,
		"environments": "process k of an input runs under a different GOMAXPROCS (default, 1, 3, 64), time zone, locale, HOME/TMPDIR/USER, GOGC and GODEBUG",
		"note": "observation of the real runtime, not simulation: catches nondeterminism the seam inventory does not own and validates that the rewrites do not change behaviour"}
}

// determinismSample re-runs a sample of multi jobs in fresh worker processes under two different process layouts.
// The two fresh executions must agree bit for bit (trace hash, ticks, result): a mismatch means the SIMULATOR is not
// deterministic (trouble, exit 2). A fresh execution that disagrees with the main run - which used pooled workers with
// an arbitrary earlier history - means the LIBRARY's result depends on what the process did before: the indices of such
// jobs are returned for the caller to turn into history-dependence reports.
func (cx *Ctx) determinismSample(jobs []*spec.Job, results []JobResult, n int) (map[string]any, []int) {
	if n > len(jobs) {
		n = len(jobs)
	}
	var sample []*spec.Job
	var idx []int
	step := len(jobs) / n
	if step == 0 {
		step = 1
	}
	for i := 0; i < len(jobs) && len(sample) < n; i += step {
		sample = append(sample, jobs[i])
		idx = append(idx, i)
	}
	run := func(workers int, procs string) []JobResult {
		p := *cx.simFresh
		p.N = workers
		p.Env = []string{"GOMAXPROCS=" + procs}
		return p.Run(sample, nil)
	}
	ra := run(1, "1")
	rb := run(4, "4")
	same := func(a, b spec.Outcome) bool {
		if a.Verdict == "FATAL" || b.Verdict == "FATAL" || (a.Verdict == "BUDGET" && a.Detail == "bytes") || (b.Verdict == "BUDGET" && b.Detail == "bytes") {
			return true // process death and the live-heap meter are not tick-exact
		}
		return a.Trace == b.Trace && a.Hash == b.Hash && a.Ticks == b.Ticks
	}
	mismatches, compared, histDep := 0, 0, 0
	var suspects []int
	for k := range sample {
		a := cx.multiOutcomes(cx.sim, ra[k])
		b := cx.multiOutcomes(cx.sim, rb[k])
		m := cx.multiOutcomes(cx.sim, results[idx[k]])
		if a == nil || b == nil || len(a) != len(b) {
			continue
		}
		ok := true
		for i := range a {
			compared++
			if !same(a[i], b[i]) {
				mismatches++
				ok = false
				fmt.Fprintf(os.Stderr, "determinism mismatch: job %d res %d: trace %s/%s ticks %d/%d hash %s/%s\n", idx[k], i, a[i].Trace, b[i].Trace, a[i].Ticks, b[i].Ticks, a[i].Hash, b[i].Hash)
			}
		}
		if ok && m != nil && len(m) == len(a) {
			for i := range a {
				if a[i].Verdict != "BUDGET" && m[i].Verdict != "BUDGET" && a[i].Verdict != "FATAL" && m[i].Verdict != "FATAL" && (a[i].Hash != m[i].Hash || a[i].Verdict != m[i].Verdict) {
					histDep++
					suspects = append(suspects, idx[k])
					break
				}
			}
		}
	}
	if mismatches > 0 {
		// identical executions that RETURN different results: first ask whether the library's result differs from one
		// fresh process to the next (a per-process source the simulator does not own); only what is left is trouble
		explained := false
		for k := range sample {
			a := cx.multiOutcomes(cx.sim, ra[k])
			b := cx.multiOutcomes(cx.sim, rb[k])
			if a == nil || b == nil || len(a) != len(b) || len(a) == 0 {
				continue
			}
			if a[0].Hash != b[0].Hash && a[0].Verdict == "OK" && b[0].Verdict == "OK" {
				if cx.processDependent(sample[k].Calls[0], sample[k].Res[0]) {
					explained = true
					break
				}
			}
		}
		if !explained {
			cx.trouble("determinism self-test: %d of %d fresh re-executions differ from each other in trace hash / ticks / result", mismatches, compared)
		}
	}
	return map[string]any{"reexecutions_compared": compared, "mismatches": mismatches, "pooled_vs_fresh_result_differences": histDep,
		"layouts": "each sampled job twice in fresh processes: 1 worker x GOMAXPROCS=1 and 4 workers x GOMAXPROCS=4, compared with each other (simulator determinism) and with the main run on 16 pooled workers (process-history independence of the library)"}, suspects
}

// ---------------------------------------------------------------------------------------------
// (b') long histories. State that survives a call can need a LONG history to matter: a generation counter or a small
// integer that wraps, a table that reaches its capacity, an eviction. The shape searched here:
//   [A1 .. Ak, one filler call repeated d times, B1 .. Bk]
// where Bi is Ai changed in exactly one respect (one edge re-targeted, two targets swapped, or one option changed): a memo
// keyed too coarsely, or an entry that looks current again after a wrap-around, hands Bi something computed for Ai. Every
// Ai and Bi is compared with the same call alone in a fresh process; the filler is not. The distance D = k + d between
// Ai and Bi is taken from powers of two and their neighbours (widths of small integer types, table sizes) and from
// random values.

func famLayered(r *rng) [][]string {
	es, _ := famLayeredL(r)
	return es
}

// famLayeredL also returns the layer of every node (edges connect adjacent layers only, plus one root above layer 0).
func famLayeredL(r *rng) ([][]string, map[string]int) {
	layers := r.between(2, 4)
	var ids [][]int
	n := 0
	for l := 0; l < layers; l++ {
		w := r.between(2, 4)
		var row []int
		for i := 0; i < w; i++ {
			row = append(row, n)
			n++
		}
		ids = append(ids, row)
	}
	var es [][]string
	for l := 0; l+1 < layers; l++ {
		for _, b := range ids[l+1] { // every node of the lower layer has a parent: connected downward
			es = append(es, edge(ids[l][r.intn(len(ids[l]))], b))
		}
		for _, a := range ids[l] {
			if r.chance(50) {
				es = append(es, edge(a, ids[l+1][r.intn(len(ids[l+1]))]))
			}
		}
	}
	// one root above, so that the graph is connected
	for _, a := range ids[0] {
		es = append(es, edge(n, a))
	}
	shuffleEdges(r, es)
	lay := map[string]int{nid(n): -1}
	for l, row := range ids {
		for _, v := range row {
			lay[nid(v)] = l
		}
	}
	return es, lay
}

// variantLayered swaps the targets of two edges that run between the same two layers: every node keeps its in- and
// out-degree and its layer, only the wiring between two adjacent layers changes.
func variantLayered(r *rng, a spec.Call, lay map[string]int) (spec.Call, bool) {
	b := a
	b.Edges = nil
	for _, e := range a.Edges {
		b.Edges = append(b.Edges, append([]string(nil), e...))
	}
	for try := 0; try < 40; try++ {
		i, j := r.intn(len(b.Edges)), r.intn(len(b.Edges))
		ei, ej := b.Edges[i], b.Edges[j]
		if i == j || lay[ei[0]] != lay[ej[0]] || lay[ei[1]] != lay[ej[1]] || ei[1] == ej[1] || ei[0] == ej[0] {
			continue
		}
		ei[1], ej[1] = ej[1], ei[1]
		return b, true
	}
	return b, false
}

// variantOf changes a call in exactly one respect.
func variantOf(r *rng, a spec.Call) spec.Call {
	b := a
	b.Edges = nil
	for _, e := range a.Edges {
		b.Edges = append(b.Edges, append([]string(nil), e...))
	}
	ids := nodeIDs(b.Edges)
	switch d := r.intn(100); {
	case d < 45 && len(b.Edges) > 1: // re-target one edge
		for try := 0; try < 20; try++ {
			i := r.intn(len(b.Edges))
			t := ids[r.intn(len(ids))]
			if t != b.Edges[i][0] && t != b.Edges[i][1] {
				b.Edges[i][1] = t
				break
			}
		}
	case d < 75 && len(b.Edges) > 1: // swap the targets of two edges
		for try := 0; try < 20; try++ {
			i, j := r.intn(len(b.Edges)), r.intn(len(b.Edges))
			if i != j && b.Edges[i][1] != b.Edges[j][1] && b.Edges[i][0] != b.Edges[j][1] && b.Edges[j][0] != b.Edges[i][1] {
				b.Edges[i][1], b.Edges[j][1] = b.Edges[j][1], b.Edges[i][1]
				break
			}
		}
	default: // same graph, one option changed
		switch r.intn(5) {
		case 0:
			b.Opts.P4 = pick(r, "bk", "sinkcoloring", "valign", "packright")
			if b.Opts.P4 == a.Opts.P4 {
				b.Opts.P4 = "valign"
				if a.Opts.P4 == "valign" {
					b.Opts.P4 = "packright"
				}
			}
		case 1:
			b.Opts.P2 = "longestpath"
			if a.Opts.P2 == "longestpath" {
				b.Opts.P2 = "ns"
			}
		case 2:
			b.Opts.P1 = "dfs"
			if a.Opts.P1 == "dfs" {
				b.Opts.P1 = "greedy"
			}
		case 3:
			b.Opts.NodeSpacing = fptr(float64(r.between(1, 90)))
		default:
			b.Opts.FixedSize = &[2]float64{float64(r.between(5, 120)), float64(r.between(5, 60))}
		}
	}
	return b
}

func (cx *Ctx) c07LongHistories(r *rng, n int, gc genCfg) map[string]any {
	special := []int{0, 16, 64, 127, 128, 129, 255, 256, 257, 511, 512, 513, 1023, 1024, 1025}
	if cx.Tier == "thorough" {
		special = append(special, 2047, 2048, 2049, 4095, 4096, 4097, 65535, 65536, 65537)
	}
	var jobs []*spec.Job
	dist := map[string]int{}
	for i := 0; i < n; i++ {
		k := r.between(6, 24)
		var D int
		switch i % 4 {
		case 0: // the width of the smallest integer type: a wrap-around within reach of every tier
			D = pick(r, 254, 255, 256, 256, 256, 257, 258)
		case 1, 2:
			D = special[(i/4*2+i%4-1)%len(special)]
		default:
			D = r.between(k, 700)
		}
		var as, bs []spec.Call
		for j := 0; j < k; j++ {
			var es [][]string
			var lay map[string]int
			if r.chance(65) {
				es, lay = famLayeredL(r)
			} else {
				es = famConnected(r, false)
			}
			o := spec.Options{}
			if r.chance(40) {
				hc := gc
				hc.allowRandomGreedy = false
				o = genOptions(r, es, hc)
				if o.P5 == "splines" {
					o.P5 = ""
				}
				if o.P4 == "ns" || o.P3 == "noop" {
					o.P4, o.P3 = "", ""
				}
			}
			a := spec.Call{Edges: es, Opts: o}
			as = append(as, a)
			if lay != nil && r.chance(70) {
				if b, ok := variantLayered(r, a, lay); ok {
					bs = append(bs, b)
					continue
				}
			}
			bs = append(bs, variantOf(r, a))
		}
		filler := spec.Call{Edges: pick(r, [][]string{{"x", "y"}}, [][]string{{"x", "y"}}, [][]string{{"x", "y"}}, [][]string{{"x", "y"}, {"y", "z"}}, [][]string{{"x", "y"}, {"p", "q"}}), NoRef: true}
		var calls []spec.Call
		calls = append(calls, as...)
		if d := D - k; d > 0 {
			filler.Repeat = d
			calls = append(calls, filler)
		}
		calls = append(calls, bs...)
		dist[fmt.Sprint(max(D, k))]++
		b := cx.Budgets
		jobs = append(jobs, &spec.Job{ID: i, Kind: "history", Calls: calls, Res: []spec.Resolution{{Adv: "identity"}}, Budgets: b})
	}
	long := *cx.simFresh
	long.Timeout = 20 * time.Minute
	hres := long.Run(jobs, nil)
	var refJobs []*spec.Job
	type refKey struct{ h, c int }
	var refIdx []refKey
	for hi, jr := range hres {
		if jr.Res == nil || jr.Res.Error != "" {
			continue
		}
		for ci, c := range jr.Job.Calls {
			if c.NoRef || ci >= len(jr.Res.Outcomes) {
				continue
			}
			refJobs = append(refJobs, &spec.Job{ID: len(refJobs), Kind: "multi", Calls: []spec.Call{c}, Res: []spec.Resolution{{Adv: "identity"}}, Budgets: cx.Budgets})
			refIdx = append(refIdx, refKey{hi, ci})
		}
	}
	rres := cx.simFresh.Run(refJobs, nil)
	byHist := map[int]map[int]JobResult{}
	for k, rr := range rres {
		rk := refIdx[k]
		if byHist[rk.h] == nil {
			byHist[rk.h] = map[int]JobResult{}
		}
		byHist[rk.h][rk.c] = rr
	}
	compared, calls, died, longest := 0, 0, 0, 0
	for hi, jr := range hres {
		if jr.Timeout {
			cx.trouble("a long-history job was silent for %v", long.Timeout)
			continue
		}
		if jr.Res == nil || jr.Res.Error != "" {
			if jr.Res != nil && jr.Res.Error != "" {
				cx.trouble("long history job: %s", jr.Res.Error)
			}
			died++
			continue
		}
		total := 0
		for _, c := range jr.Job.Calls {
			total += max(1, c.Repeat)
		}
		calls += total
		longest = max(longest, total)
		set := []JobResult{jr}
		for ci := range jr.Job.Calls {
			if rr, ok := byHist[hi][ci]; ok {
				set = append(set, rr)
				compared++
			} else {
				set = append(set, JobResult{})
			}
		}
		if v, _, _, _ := cx.oracleHistory(set); v {
			cx.c07ShrinkHistory(jr.Job)
		}
	}
	return map[string]any{"histories": n, "calls_executed": calls, "longest_history_calls": longest, "fresh_process_references_compared": compared,
		"history_jobs_that_died": died, "histories_by_distance_between_related_calls": dist,
		"shape": "[A1..Ak, one filler call repeated d times, B1..Bk]; Bi = Ai changed in exactly one respect (edge re-targeted / two targets swapped / one option changed); every Ai and Bi compared with the same call alone in a fresh process"}
}

func (cx *Ctx) c07Env(jobs []*spec.Job, results []JobResult, n int) map[string]any {
	var sample []*spec.Job
	var baseOf []JobResult
	for i, jr := range results {
		if len(sample) >= n {
			break
		}
		if jr.Res == nil || jr.Res.Error != "" || len(jr.Res.Outcomes) == 0 || jr.Res.Outcomes[0].Verdict == "BUDGET" {
			continue
		}
		j := *jobs[i]
		j.ID = len(sample)
		j.Res = []spec.Resolution{j.Res[0]}
		sample = append(sample, &j)
		baseOf = append(baseOf, jr)
	}
	compared, differ := 0, 0
	for _, pool := range []string{"simfresh-env1", "simfresh-env2"} {
		p := cx.poolFor(pool)
		for k, er := range p.Run(sample, nil) {
			base := baseOf[k]
			b := JobResult{Job: sample[k], Res: &spec.Result{Outcomes: base.Res.Outcomes[:1]}}
			compared++
			if v, key, _, _ := cx.oracleEnv([]JobResult{b, er}); v {
				differ++
				if cx.hasViolation(key) {
					cx.report(key, "", nil)
					continue
				}
				// reproduce in fresh processes, with the full result text; then shrink the graph
				viol := func(c spec.Call) (bool, *ReplayFile, string, string) {
					j := spec.Job{ID: 0, Kind: "multi", Calls: []spec.Call{c}, Res: sample[k].Res, Budgets: cx.Budgets, WantFull: true}
					rf := &ReplayFile{Property: "C07", Oracle: "c07.env", Jobs: []ReplayJob{{Pool: "simfresh", Job: j}, {Pool: pool, Job: j}}}
					v, key, what, fp := cx.evalReplay(rf)
					rf.Key, rf.What, rf.Expect = key, what, fp
					return v, rf, key, what
				}
				c := sample[k].Calls[0]
				if cx.hasViolation("process-dependent") {
					continue
				}
				if cx.processDependent(c, sample[k].Res[0]) {
					continue // identical processes already disagree: not the environment
				}
				if ok, _, _, _ := viol(c); !ok {
					if !cx.processDependent(c, sample[k].Res[0]) {
						cx.trouble("an environment-dependent result did not reproduce in fresh processes")
					}
					continue
				}
				c = shrinkCall(c, func(t spec.Call) bool { ok, _, _, _ := viol(t); return ok }, 40*time.Second)
				if ok, rf, key, what := viol(c); ok {
					cx.report(key, what, rf)
				}
			}
		}
	}
	return map[string]any{"specs_sampled": len(sample), "processes_on_other_simulated_machines_compared": compared, "differing": differ,
		"what_varies": "answers of runtime.NumCPU / GOMAXPROCS, os.Getenv / LookupEnv, os.Getpid, os.Hostname while packages are initialised (VERIF_SIM_ENV); inside a call the same queries are a dimension of the resolution"}
}

// processDependent runs call c (identity resolution) in n identical fresh simulated processes; if they disagree it
// shrinks the graph and reports "process-dependent". Reproduction is probabilistic by nature (the source is outside the
// simulator), so every evaluation uses several processes.
func (cx *Ctx) processDependent(c spec.Call, r spec.Resolution) bool {
	viol := func(c spec.Call) (bool, *ReplayFile, string, string) {
		j := spec.Job{ID: 0, Kind: "multi", Calls: []spec.Call{c}, Res: []spec.Resolution{r}, Budgets: cx.Budgets, WantFull: true}
		rf := &ReplayFile{Property: "C07", Oracle: "c07.process", Note: "identical simulated executions in fresh processes: the differing source is outside the simulator, so a replay reproduces with high probability, not with certainty"}
		for i := 0; i < 6; i++ {
			rf.Jobs = append(rf.Jobs, ReplayJob{Pool: "simfresh", Job: j})
		}
		v, key, what, fp := cx.evalReplay(rf)
		rf.Key, rf.What, rf.Expect = key, what, fp
		return v, rf, key, what
	}
	ok, _, key, _ := viol(c)
	if !ok {
		return false
	}
	if cx.hasViolation(key) {
		cx.report(key, "", nil)
		return true
	}
	c = shrinkCall(c, func(t spec.Call) bool { ok, _, _, _ := viol(t); return ok }, 40*time.Second)
	if ok, rf, key, what := viol(c); ok {
		cx.report(key, what, rf)
	} else if ok, rf, key, what := viol(c); ok {
		cx.report(key, what, rf)
	}
	return true
}
