package main

import (
	"sort"
	"time"

	"github.com/nulab/autog/zzverif/spec"
)

// ddmin: classic delta debugging over a list; test must be true for the full list.
func ddmin[T any](items []T, test func([]T) bool, deadline time.Time) []T {
	n := 2
	for len(items) >= 2 {
		if time.Now().After(deadline) {
			return items
		}
		chunk := (len(items) + n - 1) / n
		reduced := false
		// try complements (remove one chunk)
		for start := 0; start < len(items); start += chunk {
			if time.Now().After(deadline) {
				return items
			}
			end := start + chunk
			if end > len(items) {
				end = len(items)
			}
			cand := append(append([]T{}, items[:start]...), items[end:]...)
			if len(cand) > 0 && test(cand) {
				items = cand
				if n > 2 {
					n--
				}
				reduced = true
				break
			}
		}
		if !reduced {
			if n >= len(items) {
				break
			}
			n *= 2
			if n > len(items) {
				n = len(items)
			}
		}
	}
	return items
}

func cloneCall(c spec.Call) spec.Call {
	d := c
	d.Edges = make([][]string, len(c.Edges))
	for i := range c.Edges {
		d.Edges[i] = append([]string(nil), c.Edges[i]...)
	}
	if c.Opts.Sizes2 != nil {
		d.Opts.Sizes2 = append([]spec.NodeSize{}, c.Opts.Sizes2...)
	}
	if c.Opts.Sizes != nil {
		d.Opts.Sizes = append([]spec.NodeSize{}, c.Opts.Sizes...)
	}
	return d
}

// shrinkCall minimises a call while test stays true: edges (ddmin), node merging/renaming, options.
func shrinkCall(c spec.Call, test func(spec.Call) bool, budget time.Duration) spec.Call {
	deadline := time.Now().Add(budget)
	cur := cloneCall(c)
	// 1. edges
	edges := ddmin(cur.Edges, func(es [][]string) bool {
		t := cloneCall(cur)
		t.Edges = es
		return test(t)
	}, deadline)
	cur.Edges = edges
	// 2. options to defaults, one by one
	for _, f := range optionSimplifiers() {
		if time.Now().After(deadline) {
			break
		}
		t := cloneCall(cur)
		if !f(&t.Opts) {
			continue
		}
		if test(t) {
			cur = t
		}
	}
	// drop size entries one by one
	if len(cur.Opts.Sizes) > 0 {
		sz := ddmin(cur.Opts.Sizes, func(s []spec.NodeSize) bool {
			t := cloneCall(cur)
			t.Opts.Sizes = s
			return test(t)
		}, deadline)
		cur.Opts.Sizes = sz
	}
	// 3. rename nodes to a, b, c... (in order of appearance), if that keeps the violation
	ids := nodeIDs(cur.Edges)
	m := map[string]string{}
	for i, id := range ids {
		name := string(rune('a' + i%26))
		if i >= 26 {
			name += string(rune('0' + i/26))
		}
		m[id] = name
	}
	t := cloneCall(cur)
	for i := range t.Edges {
		t.Edges[i] = []string{m[t.Edges[i][0]], m[t.Edges[i][1]]}
	}
	for i := range t.Opts.Sizes2 {
		if n, ok := m[t.Opts.Sizes2[i].ID]; ok {
			t.Opts.Sizes2[i].ID = n
		}
	}
	for i := range t.Opts.Sizes {
		if n, ok := m[t.Opts.Sizes[i].ID]; ok {
			t.Opts.Sizes[i].ID = n
		}
	}
	sort.Slice(t.Opts.Sizes, func(i, j int) bool { return t.Opts.Sizes[i].ID < t.Opts.Sizes[j].ID })
	if !time.Now().After(deadline) && test(t) {
		cur = t
	}
	// 4. edges again (options may have unlocked more)
	if !time.Now().After(deadline) {
		edges = ddmin(cur.Edges, func(es [][]string) bool {
			t := cloneCall(cur)
			t.Edges = es
			return test(t)
		}, deadline)
		cur.Edges = edges
	}
	return cur
}

func optionSimplifiers() []func(o *spec.Options) bool {
	return []func(o *spec.Options) bool{
		func(o *spec.Options) bool { if o.Sizes2 == nil { return false }; o.Sizes2 = nil; return true },
		func(o *spec.Options) bool { if o.Sizes == nil { return false }; o.Sizes = nil; return true },
		func(o *spec.Options) bool { if o.FixedSize == nil { return false }; o.FixedSize = nil; return true },
		func(o *spec.Options) bool { if o.VirtualOut == nil { return false }; o.VirtualOut = nil; return true },
		func(o *spec.Options) bool { if o.Thoroughness == nil { return false }; o.Thoroughness = nil; return true },
		func(o *spec.Options) bool { if o.NodeSpacing == nil { return false }; o.NodeSpacing = nil; return true },
		func(o *spec.Options) bool { if o.LayerSpacing == nil { return false }; o.LayerSpacing = nil; return true },
		func(o *spec.Options) bool { if o.P3 == "" { return false }; o.P3 = ""; return true },
		func(o *spec.Options) bool { if o.P1 == "" { return false }; o.P1 = ""; return true },
		func(o *spec.Options) bool { if o.P2 == "" { return false }; o.P2 = ""; return true },
		func(o *spec.Options) bool { if o.P5 == "" { return false }; o.P5 = ""; return true },
		func(o *spec.Options) bool { if o.P5 == "" || o.P5 == "noop" { return false }; o.P5 = "noop"; return true },
		func(o *spec.Options) bool { if o.BK == nil { return false }; o.BK = nil; return true },
		func(o *spec.Options) bool { if o.P4 == "" { return false }; o.P4 = ""; o.BK = nil; return true },
		func(o *spec.Options) bool {
			if o.FixedSize == nil || (o.FixedSize[0] == 10 && o.FixedSize[1] == 10) { return false }
			o.FixedSize = &[2]float64{10, 10}
			return true
		},
	}
}
