package main

import (
	"bufio"
	"bytes"
	"encoding/json"
	"fmt"
	"io"
	"os"
	"os/exec"
	"strings"
	"sync"
	"sync/atomic"
	"syscall"
	"time"

	"github.com/nulab/autog/zzverif/spec"
)

// JobResult is what the supervisor learns about one job.
type JobResult struct {
	Job     *spec.Job
	Res     *spec.Result
	Fatal   string // non-empty: the worker process died while this job was in flight (stderr head)
	Timeout bool   // wall-clock watchdog fired (environment backstop)
	WallCap bool   // not evaluated: the batch's wall-clock cap was reached (evidence says so; never a verdict)
	Stderr  string // stderr produced during the job (race reports etc.)
}

var spawnedTotal int64

// Pool runs jobs on supervised worker processes.
type Pool struct {
	Bin     string
	Args    []string
	Env     []string
	N       int
	Fresh   bool // a new process per job
	Timeout time.Duration
	Deadline time.Time // zero = none: after it no new job starts and jobs in flight are abandoned (WallCap)
	idle    chan *worker // persistent workers shared by all copies of this pool
}

func newPool(bin string, args []string, n int, fresh bool, timeout time.Duration) *Pool {
	return &Pool{Bin: bin, Args: args, N: n, Fresh: fresh, Timeout: timeout, idle: make(chan *worker, 64)}
}

func (p *Pool) get() (*worker, error) {
	if !p.Fresh && p.idle != nil {
		select {
		case w := <-p.idle:
			return w, nil
		default:
		}
	}
	return p.spawn()
}

func (p *Pool) put(w *worker) {
	if w == nil {
		return
	}
	if !p.Fresh && p.idle != nil {
		select {
		case p.idle <- w:
			return
		default:
		}
	}
	w.kill()
}

// Close kills the idle persistent workers.
func (p *Pool) Close() {
	if p.idle == nil {
		return
	}
	for {
		select {
		case w := <-p.idle:
			w.kill()
		default:
			return
		}
	}
}

type worker struct {
	cmd    *exec.Cmd
	in     io.WriteCloser
	out    *bufio.Reader
	errBuf *capBuf
}

type capBuf struct {
	mu  sync.Mutex
	buf bytes.Buffer
	max int
}

func (c *capBuf) Write(p []byte) (int, error) {
	c.mu.Lock()
	defer c.mu.Unlock()
	if room := c.max - c.buf.Len(); room > 0 {
		if len(p) > room {
			c.buf.Write(p[:room])
		} else {
			c.buf.Write(p)
		}
	}
	return len(p), nil
}

func (c *capBuf) take() string {
	c.mu.Lock()
	defer c.mu.Unlock()
	s := c.buf.String()
	c.buf.Reset()
	return s
}

func (p *Pool) spawn() (*worker, error) {
	cmd := exec.Command(p.Bin, p.Args...)
	cmd.Env = append(os.Environ(), p.Env...)
	cmd.SysProcAttr = &syscall.SysProcAttr{Pdeathsig: syscall.SIGKILL} // workers never outlive the supervisor
	in, err := cmd.StdinPipe()
	if err != nil {
		return nil, err
	}
	out, err := cmd.StdoutPipe()
	if err != nil {
		return nil, err
	}
	eb := &capBuf{max: 64 << 10}
	cmd.Stderr = eb
	if err := cmd.Start(); err != nil {
		return nil, err
	}
	atomic.AddInt64(&spawnedTotal, 1)
	return &worker{cmd: cmd, in: in, out: bufio.NewReaderSize(out, 64<<10), errBuf: eb}, nil
}

func (w *worker) kill() {
	if w == nil {
		return
	}
	w.in.Close()
	w.cmd.Process.Kill()
	w.cmd.Wait()
}

// one job on one worker; returns ok=false if the worker must be discarded
func (p *Pool) do(w *worker, job *spec.Job) (jr JobResult, alive bool) {
	jr.Job = job
	line, _ := json.Marshal(job)
	line = append(line, '\n')
	w.errBuf.take()
	type rd struct {
		res *spec.Result
		err error
	}
	done := make(chan rd, 1)
	go func() {
		if _, err := w.in.Write(line); err != nil {
			done <- rd{nil, err}
			return
		}
		for {
			l, err := w.out.ReadString('\n')
			if strings.HasPrefix(l, "RESULT ") {
				var r spec.Result
				if e := json.Unmarshal([]byte(l[7:]), &r); e != nil {
					done <- rd{nil, fmt.Errorf("bad result line: %v", e)}
					return
				}
				done <- rd{&r, nil}
				return
			}
			if err != nil {
				done <- rd{nil, err}
				return
			}
		}
	}()
	to := p.Timeout
	if to == 0 {
		to = 120 * time.Second
	}
	capped := false
	if !p.Deadline.IsZero() {
		if left := time.Until(p.Deadline); left < to {
			to = left
			capped = true
			if to < 0 {
				to = 0
			}
		}
	}
	select {
	case r := <-done:
		if r.err != nil {
			w.cmd.Wait() // let stderr drain
			jr.Fatal = w.errBuf.take()
			if jr.Fatal == "" {
				jr.Fatal = "worker died: " + r.err.Error()
			}
			w.kill()
			return jr, false
		}
		jr.Res = r.res
		jr.Stderr = w.errBuf.take()
		return jr, true
	case <-time.After(to):
		if capped {
			jr.WallCap = true
		} else {
			jr.Timeout = true
		}
		w.kill()
		jr.Stderr = w.errBuf.take()
		return jr, false
	}
}

// Run executes all jobs and returns results in job order. progress (may be nil) is called per finished job.
func (p *Pool) Run(jobs []*spec.Job, progress func(int)) []JobResult {
	out := make([]JobResult, len(jobs))
	idx := make(chan int, len(jobs))
	for i := range jobs {
		idx <- i
	}
	close(idx)
	n := p.N
	if n <= 0 {
		n = 1
	}
	if n > len(jobs) {
		n = len(jobs)
	}
	var wg sync.WaitGroup
	var cnt int
	var cmu sync.Mutex
	for k := 0; k < n; k++ {
		wg.Add(1)
		go func() {
			defer wg.Done()
			var w *worker
			defer func() { p.put(w) }()
			for i := range idx {
				if !p.Deadline.IsZero() && time.Now().After(p.Deadline) {
					out[i] = JobResult{Job: jobs[i], WallCap: true}
					continue
				}
				if w == nil || p.Fresh {
					w.kill()
					var err error
					w, err = p.get()
					if err != nil {
						out[i] = JobResult{Job: jobs[i], Res: &spec.Result{Error: "spawn: " + err.Error()}}
						w = nil
						continue
					}
				}
				jr, alive := p.do(w, jobs[i])
				out[i] = jr
				if !alive {
					w = nil
				}
				if progress != nil {
					cmu.Lock()
					cnt++
					c := cnt
					cmu.Unlock()
					progress(c)
				}
			}
		}()
	}
	wg.Wait()
	return out
}

// fatalClass extracts a stable one-line classification from a dead worker's stderr.
func fatalClass(stderr string) (class, site string) {
	class = "worker died"
	lines := strings.Split(stderr, "\n")
	for _, l := range lines {
		if strings.HasPrefix(l, "fatal error: ") {
			class = strings.TrimPrefix(l, "fatal error: ")
			break
		}
		if strings.HasPrefix(l, "runtime: goroutine stack exceeds") {
			class = "stack overflow"
		}
		if strings.HasPrefix(l, "panic: ") {
			class = l
			break
		}
	}
	// most frequent module function among the first frames names the recursion
	counts := map[string]int{}
	order := []string{}
	for _, l := range lines {
		if strings.HasPrefix(l, "github.com/nulab/autog") && !strings.Contains(l, "/zzverif/") {
			name := l
			if k := strings.LastIndex(name, "("); k > 0 {
				name = name[:k]
			}
			name = strings.TrimPrefix(name, "github.com/nulab/autog/")
			name = strings.TrimPrefix(name, "internal/")
			if counts[name] == 0 {
				order = append(order, name)
			}
			counts[name]++
		}
	}
	best := ""
	for _, n := range order {
		if best == "" || counts[n] > counts[best] {
			best = n
		}
	}
	return class, best
}
