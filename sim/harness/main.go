// Command harness is the worker process: it reads run specifications (one JSON job per line)
// on stdin, announces "START <id>", executes the job against autog's public API and answers
// "RESULT <json>". It is built twice: inside the instrumented scratch copy (simworker) and
// inside an untouched copy (realworker). The supervisor owns all oracles; the worker only
// executes and reports.
package main

import (
	"bufio"
	"crypto/sha256"
	"encoding/hex"
	"encoding/json"
	"flag"
	"fmt"
	"math"
	"os"
	"runtime"
	"runtime/debug"
	"sort"
	"strconv"
	"strings"
	"sync"
	"sync/atomic"
	"time"

	"github.com/nulab/autog"
	"github.com/nulab/autog/graph"
	"github.com/nulab/autog/zzverif/simrt"
	"github.com/nulab/autog/zzverif/spec"
)

const modPath = "github.com/nulab/autog"

type seams struct {
	RangeSites []struct {
		ID  int    `json:"id"`
		Pos string `json:"pos"`
	} `json:"range_sites"`
	Vars []struct {
		ID   int    `json:"id"`
		Name string `json:"name"`
	} `json:"vars"`
	Accesses []struct {
		Var  int    `json:"var"`
		Kind string `json:"kind"`
		Pos  string `json:"pos"`
	} `json:"accesses"`
	Funcs      []string `json:"funcs"`
	TickSites  []string `json:"tick_sites"`
	DeferFirst []int    `json:"defer_first"`
}

var (
	siteID  = map[string]int{}
	nSites  int
	accInfo []string
	isReal  bool
)

func loadSeams(path string) {
	if path == "" {
		return
	}
	b, err := os.ReadFile(path)
	if err != nil {
		fmt.Fprintln(os.Stderr, "harness: cannot read seams:", err)
		os.Exit(2)
	}
	var s seams
	if err := json.Unmarshal(b, &s); err != nil {
		fmt.Fprintln(os.Stderr, "harness: bad seams:", err)
		os.Exit(2)
	}
	simrt.FuncNames = s.Funcs
	simrt.NoFaultFn = make([]bool, len(s.Funcs))
	for i, f := range s.Funcs {
		if strings.HasPrefix(f, "internal/monitor.") {
			simrt.NoFaultFn[i] = true
		}
	}
	simrt.NoEntryFault = make([]bool, len(s.Funcs))
	for _, id := range s.DeferFirst {
		if id >= 0 && id < len(s.Funcs) {
			simrt.NoEntryFault[id] = true
		}
	}
	simrt.TickNames = s.TickSites
	for _, r := range s.RangeSites {
		for len(simrt.SiteNames) <= r.ID {
			simrt.SiteNames = append(simrt.SiteNames, "")
		}
		simrt.SiteNames[r.ID] = r.Pos
		siteID[r.Pos] = r.ID
	}
	nSites = len(simrt.SiteNames)
	for _, v := range s.Vars {
		for len(simrt.VarNames) <= v.ID {
			simrt.VarNames = append(simrt.VarNames, "")
		}
		simrt.VarNames[v.ID] = v.Name
	}
	for _, a := range s.Accesses {
		accInfo = append(accInfo, a.Kind+"@"+a.Pos)
	}
}

func main() {
	seamsPath := flag.String("seams", "", "seams.json written by the instrumenter")
	real := flag.Bool("real", false, "this binary contains the un-instrumented library")
	flag.Parse()
	isReal = *real
	loadSeams(*seamsPath)
	in := bufio.NewReaderSize(os.Stdin, 1<<20)
	out := bufio.NewWriter(os.Stdout)
	for {
		line, err := in.ReadBytes('\n')
		if len(line) > 1 {
			var job spec.Job
			if e := json.Unmarshal(line, &job); e != nil {
				fmt.Fprintf(out, "RESULT %s\n", mustJSON(spec.Result{ID: -1, Error: "bad job: " + e.Error()}))
				out.Flush()
			} else {
				fmt.Fprintf(out, "START %d\n", job.ID)
				out.Flush()
				t0 := time.Now()
				res := runJob(&job)
				res.ID = job.ID
				res.WallMs = float64(time.Since(t0).Microseconds()) / 1000
				fmt.Fprintf(out, "RESULT %s\n", mustJSON(res))
				out.Flush()
			}
		}
		if err != nil {
			return
		}
	}
}

func mustJSON(v any) string {
	b, err := json.Marshal(v)
	if err != nil {
		return `{"id":-1,"error":"marshal: ` + strings.ReplaceAll(err.Error(), `"`, `'`) + `"}`
	}
	return string(b)
}

func runJob(job *spec.Job) (res spec.Result) {
	defer func() {
		if r := recover(); r != nil {
			res.Error = fmt.Sprintf("harness panic: %v\n%s", r, debug.Stack())
		}
	}()
	// simulated lock / once / waitgroup state is process state, like the real primitives' own: it is cleared when a job
	// starts (jobs run in fresh processes anyway) and then survives from one call of the job to the next - a lock that a
	// call leaves held (e.g. because it left through a panic) is still held for the next call
	simrt.ResetSync()
	switch job.Kind {
	case "multi":
		return runMulti(job)
	case "history":
		return runHistory(job)
	case "conc":
		return runConc(job)
	case "stress":
		return runStress(job)
	}
	return spec.Result{Error: "unknown job kind " + job.Kind}
}

// ---------------------------------------------------------------------------------------------
// building the arguments of a call

type args struct {
	src     graph.EdgeSlice
	sizes   map[string]graph.Size
	sizes2  map[string]graph.Size
	snapSz2 map[string]graph.Size
	opts    []autog.Option
	snapSrc [][]string
	snapSz  map[string]graph.Size
}

func deepEdges(e [][]string) [][]string {
	out := make([][]string, len(e))
	for i := range e {
		out[i] = append([]string(nil), e[i]...)
	}
	return out
}

const spareMark = "\x00zzverif-spare-capacity"

// callerEdges builds the edge list the way a caller might own it: as a sub-slice of a larger backing array. The spare
// capacity behind the outer slice and behind every inner slice belongs to the caller too; it is filled with a marker
// and compared after the call (an append into it is a write into the caller's memory that len-based comparison misses).
func callerEdges(e [][]string) [][]string {
	out := make([][]string, len(e), len(e)+3)
	for i := range e {
		in := make([]string, len(e[i]), len(e[i])+2)
		copy(in, e[i])
		sp := in[:cap(in)]
		for j := len(in); j < len(sp); j++ {
			sp[j] = spareMark
		}
		out[i] = in
	}
	sp := out[:cap(out)]
	for j := len(out); j < len(sp); j++ {
		sp[j] = []string{spareMark}
	}
	return out
}

func spareTouched(src [][]string) string {
	sp := src[:cap(src)]
	for j := len(src); j < len(sp); j++ {
		if len(sp[j]) != 1 || sp[j][0] != spareMark {
			return fmt.Sprintf("spare capacity of the caller's edge list (index %d, beyond len %d) was overwritten", j, len(src))
		}
	}
	for i := range src {
		in := src[i][:cap(src[i])]
		for j := len(src[i]); j < len(in); j++ {
			if in[j] != spareMark {
				return fmt.Sprintf("spare capacity of the caller's edge %d (index %d, beyond len %d) was overwritten with %q", i, j, len(src[i]), in[j])
			}
		}
	}
	return ""
}

// buildArgs builds the arguments of a call. Option constructors are library code, so in the instrumented build they run
// as a simulated task of their own: a constructor that reads the clock or draws entropy gets run-spec values - the same
// ones whenever the arguments of this call are built (for a solo reference as for the concurrent run), never the real
// clock. The set-up clock is deliberately not a resolution dimension: two Option values built at different times are
// different arguments, and the properties only speak about calls with the same arguments.
func buildArgs(c *spec.Call, mon any) (a *args, err error) {
	if isReal || simrt.Cur() != nil {
		return buildArgsRaw(c, mon)
	}
	g := simrt.NewGroup(-1, simrt.GroupCfg{Adv: "identity", T0: 1_700_000_000_000_000_000, Entropy: 0x5e7, NSites: nSites})
	t := simrt.RunSolo(g, func() { a, err = buildArgsRaw(c, mon) })
	if t.Panic != nil {
		return nil, fmt.Errorf("building the arguments panicked: %v", t.Panic)
	}
	if a == nil && err == nil {
		return nil, fmt.Errorf("building the arguments did not finish")
	}
	return a, err
}

func buildArgsRaw(c *spec.Call, mon any) (*args, error) {
	a := &args{}
	a.src = graph.EdgeSlice(callerEdges(c.Edges))
	o := c.Opts
	switch o.P1 {
	case "":
	case "greedy":
		a.opts = append(a.opts, autog.WithCycleBreaking(autog.CycleBreakingGreedy))
	case "greedy-random":
		a.opts = append(a.opts, autog.WithCycleBreaking(autog.CycleBreakingGreedy), autog.WithNonDeterministicGreedyCycleBreaker())
	case "dfs":
		a.opts = append(a.opts, autog.WithCycleBreaking(autog.CycleBreakingDepthFirst))
	default:
		return nil, fmt.Errorf("bad p1 %q", o.P1)
	}
	switch o.P2 {
	case "":
	case "ns":
		a.opts = append(a.opts, autog.WithLayering(autog.LayeringNetworkSimplex))
	case "longestpath":
		a.opts = append(a.opts, autog.WithLayering(autog.LayeringLongestPath))
	default:
		return nil, fmt.Errorf("bad p2 %q", o.P2)
	}
	switch o.P3 {
	case "":
	case "wmedian":
		a.opts = append(a.opts, autog.WithOrdering(autog.OrderingWMedian))
	case "noop":
		a.opts = append(a.opts, autog.WithOrdering(autog.OrderingNoop))
	default:
		return nil, fmt.Errorf("bad p3 %q", o.P3)
	}
	switch o.P4 {
	case "":
	case "sinkcoloring":
		a.opts = append(a.opts, autog.WithPositioning(autog.PositioningSinkColoring))
	case "valign":
		a.opts = append(a.opts, autog.WithPositioning(autog.PositioningVAlign))
	case "packright":
		a.opts = append(a.opts, autog.WithPositioning(autog.PositioningPackRight))
	case "ns":
		a.opts = append(a.opts, autog.WithPositioning(autog.PositioningNetworkSimplex))
	case "bk":
		a.opts = append(a.opts, autog.WithPositioning(autog.PositioningBrandesKoepf))
	case "noop":
		a.opts = append(a.opts, autog.WithPositioning(autog.PositioningNoop))
	default:
		return nil, fmt.Errorf("bad p4 %q", o.P4)
	}
	if o.BK != nil {
		a.opts = append(a.opts, autog.WithBrandesKoepfLayout(*o.BK))
	}
	switch o.P5 {
	case "":
	case "polyline":
		a.opts = append(a.opts, autog.WithEdgeRouting(autog.EdgeRoutingPolyline))
	case "straight":
		a.opts = append(a.opts, autog.WithEdgeRouting(autog.EdgeRoutingStraight))
	case "ortho":
		a.opts = append(a.opts, autog.WithEdgeRouting(autog.EdgeRoutingOrtho))
	case "splines":
		a.opts = append(a.opts, autog.WithEdgeRouting(autog.EdgeRoutingSplines))
	case "noop":
		a.opts = append(a.opts, autog.WithEdgeRouting(autog.EdgeRoutingNoop))
	default:
		return nil, fmt.Errorf("bad p5 %q", o.P5)
	}
	if o.FixedSize != nil {
		a.opts = append(a.opts, autog.WithNodeFixedSize(o.FixedSize[0], o.FixedSize[1]))
	}
	if o.Sizes != nil {
		a.sizes = map[string]graph.Size{}
		for _, s := range o.Sizes {
			a.sizes[s.ID] = graph.Size{W: s.W, H: s.H}
		}
		a.opts = append(a.opts, autog.WithNodeSize(a.sizes))
	}
	if o.Sizes2 != nil {
		a.sizes2 = map[string]graph.Size{}
		for _, s := range o.Sizes2 {
			a.sizes2[s.ID] = graph.Size{W: s.W, H: s.H}
		}
		a.opts = append(a.opts, autog.WithNodeSize(a.sizes2))
	}
	if o.NodeSpacing != nil {
		a.opts = append(a.opts, autog.WithNodeSpacing(*o.NodeSpacing))
	}
	if o.LayerSpacing != nil {
		a.opts = append(a.opts, autog.WithLayerSpacing(*o.LayerSpacing))
	}
	if o.Thoroughness != nil {
		a.opts = append(a.opts, autog.WithNetworkSimplexThoroughness(*o.Thoroughness))
	}
	if o.VirtualOut != nil {
		a.opts = append(a.opts, autog.WithOutputVirtualNodes(*o.VirtualOut))
	}
	if mon != nil {
		if m, ok := mon.(*recMon); ok {
			a.opts = append(a.opts, autog.WithMonitor(m))
		}
	}
	a.snapshot()
	return a, nil
}

func (a *args) snapshot() {
	a.snapSrc = deepEdges(a.src)
	if a.sizes != nil {
		a.snapSz = map[string]graph.Size{}
		for k, v := range a.sizes {
			a.snapSz[k] = v
		}
	}
	if a.sizes2 != nil {
		a.snapSz2 = map[string]graph.Size{}
		for k, v := range a.sizes2 {
			a.snapSz2[k] = v
		}
	}
}

func sizeMapChanged(which string, cur, snap map[string]graph.Size) string {
	if cur == nil {
		return ""
	}
	if len(cur) != len(snap) {
		return fmt.Sprintf("%s size map length changed %d -> %d", which, len(snap), len(cur))
	}
	keys := make([]string, 0, len(cur))
	for k := range cur {
		keys = append(keys, k)
	}
	sort.Strings(keys)
	for _, k := range keys {
		v := cur[k]
		w, ok := snap[k]
		if !ok || math.Float64bits(v.X) != math.Float64bits(w.X) || math.Float64bits(v.Y) != math.Float64bits(w.Y) ||
			math.Float64bits(v.W) != math.Float64bits(w.W) || math.Float64bits(v.H) != math.Float64bits(w.H) {
			return fmt.Sprintf("%s size map entry %q changed", which, k)
		}
	}
	return ""
}

// mutated compares the caller-owned arguments with their snapshot (C07: arguments left unmodified).
func (a *args) mutated() string {
	if len(a.src) != len(a.snapSrc) {
		return fmt.Sprintf("edge list length changed %d -> %d", len(a.snapSrc), len(a.src))
	}
	for i := range a.src {
		if len(a.src[i]) != len(a.snapSrc[i]) {
			return fmt.Sprintf("edge %d length changed", i)
		}
		for j := range a.src[i] {
			if a.src[i][j] != a.snapSrc[i][j] {
				return fmt.Sprintf("edge %d element %d changed %q -> %q", i, j, a.snapSrc[i][j], a.src[i][j])
			}
		}
	}
	if m := spareTouched(a.src); m != "" {
		return m
	}
	if m := sizeMapChanged("the caller's", a.sizes, a.snapSz); m != "" {
		return m
	}
	if m := sizeMapChanged("the caller's second", a.sizes2, a.snapSz2); m != "" {
		return m
	}
	return ""
}

// ---------------------------------------------------------------------------------------------
// canonical serialisation of a result

func fb(f float64) string { return strconv.FormatUint(math.Float64bits(f), 16) }

func serialise(l graph.Layout) string {
	var b strings.Builder
	for _, n := range l.Nodes {
		fmt.Fprintf(&b, "N %q %s %s %s %s\n", n.ID, fb(n.X), fb(n.Y), fb(n.W), fb(n.H))
	}
	for _, e := range l.Edges {
		fmt.Fprintf(&b, "E %q %q %v %d", e.FromID, e.ToID, e.ArrowHeadStart, len(e.Points))
		for _, p := range e.Points {
			fmt.Fprintf(&b, " %s,%s", fb(p[0]), fb(p[1]))
		}
		b.WriteByte('\n')
	}
	return b.String()
}

// readable rendering used in reports
func render(l graph.Layout) string {
	var b strings.Builder
	for _, n := range l.Nodes {
		fmt.Fprintf(&b, "N %q x=%v y=%v w=%v h=%v\n", n.ID, n.X, n.Y, n.W, n.H)
	}
	for _, e := range l.Edges {
		fmt.Fprintf(&b, "E %q->%q arrowStart=%v pts=%v\n", e.FromID, e.ToID, e.ArrowHeadStart, e.Points)
	}
	return b.String()
}

func hashOf(s string) string {
	h := sha256.Sum256([]byte(s))
	return hex.EncodeToString(h[:10])
}

// innermost module frame of a stack dump
func moduleFrame(stack []byte) (fn string, short string) {
	lines := strings.Split(string(stack), "\n")
	var frames []string
	for i := 0; i+1 < len(lines); i++ {
		l := lines[i]
		if !strings.HasPrefix(l, modPath) {
			continue
		}
		if strings.Contains(l, "/zzverif/") {
			continue
		}
		name := l
		if k := strings.LastIndex(name, "("); k > 0 {
			name = name[:k]
		}
		name = strings.TrimPrefix(name, modPath)
		name = strings.TrimPrefix(name, "/")
		name = strings.TrimPrefix(name, "internal/")
		if name == "" || strings.HasPrefix(name, ".") {
			name = "autog" + name
		}
		// strip generic instantiation noise
		for {
			a := strings.Index(name, "[")
			b := strings.Index(name, "]")
			if a < 0 || b < a {
				break
			}
			name = name[:a] + name[b+1:]
		}
		loc := strings.TrimSpace(lines[i+1])
		if k := strings.Index(loc, " +0x"); k > 0 {
			loc = loc[:k]
		}
		if k := strings.LastIndex(loc, "/"); k >= 0 {
			// keep dir/file.go:line
			d := loc[:k]
			if k2 := strings.LastIndex(d, "/"); k2 >= 0 {
				loc = loc[k2+1:]
			}
		}
		frames = append(frames, name+" ("+loc+")")
		if fn == "" {
			fn = name
		}
	}
	if len(frames) > 12 {
		frames = append(frames[:8], append([]string{"..."}, frames[len(frames)-3:]...)...)
	}
	return fn, strings.Join(frames, " < ")
}

func normMsg(v any) string {
	var s string
	switch e := v.(type) {
	case error:
		s = e.Error()
	case string:
		s = e
	default:
		s = fmt.Sprint(v)
	}
	if len(s) > 300 {
		s = s[:300]
	}
	return s
}

// ---------------------------------------------------------------------------------------------
// executing one call

type execCtx struct {
	job     *spec.Job
	hist    *history
	callIdx int
	stackDepth int
}

func groupCfg(job *spec.Job, c *spec.Call, r *spec.Resolution) (simrt.GroupCfg, error) {
	cfg := simrt.GroupCfg{
		Adv: r.Adv, AdvSeed: r.AdvSeed, T0: r.T0, Rate: r.Rate, Entropy: r.Entropy, ClockPerRead: r.ClockPerRead || job.Kind == "conc",
		TickBudget: job.Budgets.Ticks, FrameBudget: job.Budgets.Frame, DepthBudget: job.Budgets.Depth, ByteBudget: job.Budgets.Bytes,
		PanicAtTick: c.PanicAtTick, RecordPerms: job.RecordPerms, NSites: nSites,
	}
	if cfg.Adv == "" {
		cfg.Adv = "identity"
	}
	for _, o := range r.Overrides {
		id, ok := siteID[o.Site]
		if !ok {
			if isReal {
				continue
			}
			return cfg, fmt.Errorf("override names unknown range site %q", o.Site)
		}
		cfg.Overrides = append(cfg.Overrides, simrt.Override{Site: id, Occ: o.Occ, Kind: o.Kind, Arg: o.Arg, Perm: o.Perm})
	}
	return cfg, nil
}

// body returns the function a task executes for this call, and a finisher that turns the
// task's end state into an Outcome.
func prepare(ec *execCtx, c *spec.Call, a *args, g *simrt.Group, mon *recMon) (body func(), finish func(t *simrt.Task) spec.Outcome) {
	var layout graph.Layout
	var returned bool
	var oc spec.Outcome
	body = func() {
		if ec.hist != nil {
			oc.Invoke = ec.hist.next()
			ec.hist.current = ec.callIdx
			defer func() {
				// runs on return, panic and Goexit alike
				oc.End = ec.hist.next()
				ec.hist.current = -1
			}()
		}
		if ec.stackDepth > 0 {
			deepCall(ec.stackDepth, func() { layout = autog.Layout(a.src, a.opts...) })
		} else {
			layout = autog.Layout(a.src, a.opts...)
		}
		returned = true
	}
	finish = func(t *simrt.Task) spec.Outcome {
		oc.Ticks = g.Ticks
		oc.Depth = g.MaxDepth
		oc.Frame = g.MaxFrame
		if g.MaxFrameFn < len(simrt.FuncNames) {
			oc.FrameFn = simrt.FuncNames[g.MaxFrameFn]
		}
		oc.Bytes = g.PeakBytes
		oc.Trace = strconv.FormatUint(g.Trace(), 16)
		oc.ClockReads = g.ClockReads
		if g.ClockReads > 0 {
			oc.ClockHash = strconv.FormatUint(g.ClockHash, 16)
		}
		oc.ArgsMutated = a.mutated()
		oc.LeakedTasks = t.LiveOthersAtEnd
		oc.Tasks = g.NTasks
		if mon != nil {
			oc.Events = mon.count
			oc.FaultFired = mon.fired
		}
		se := map[string][3]int{}
		for i := range g.SiteExec {
			if g.SiteExec[i] > 0 {
				se[simrt.SiteName(i)] = [3]int{int(g.SiteExec[i]), int(g.SiteExec2[i]), int(g.SitePerm[i])}
			}
		}
		if len(se) > 0 {
			oc.SiteExec = se
		}
		if len(g.PermKinds) > 0 {
			oc.PermKinds = g.PermKinds
		}
		for _, p := range g.Perms {
			oc.Perms = append(oc.Perms, spec.AppliedPerm{Site: simrt.SiteName(p.Site), Occ: p.Occ, N: p.N, Perm: p.Perm})
		}
		if cp := g.ChildPanic; cp != nil {
			// a panic in a goroutine started by the library cannot be recovered by the caller: in real Go the process dies
			switch p := cp.(type) {
			case simrt.BudgetExceeded:
				oc.Verdict, oc.Detail = "BUDGET", p.Kind
				oc.Site, oc.Stack = moduleFrame(g.ChildStack)
				oc.Hash = hashOf("BUDGET|" + p.Kind)
			case simrt.InjectedPanic, injectedMonitorPanic:
				oc.Verdict, oc.Detail, oc.FaultFired = "FATAL", "injected panic reached a goroutine started by Layout (process-fatal)", true
				oc.Hash = hashOf("FATAL|injected")
			case simrt.HarnessError:
				oc.Verdict, oc.Detail = "HARNESS", p.Msg
			default:
				oc.Verdict = "FATAL"
				oc.Detail = "panic in a goroutine started by Layout: " + normMsg(cp)
				oc.Site, oc.Stack = moduleFrame(g.ChildStack)
				oc.Hash = hashOf("FATAL|" + oc.Detail + "|" + oc.Site)
			}
			return oc
		}
		switch {
		case returned:
			oc.Verdict = "OK"
			s := serialise(layout)
			oc.Hash = hashOf(s)
			oc.Nodes, oc.Edges = len(layout.Nodes), len(layout.Edges)
			if ec.job.WantFull {
				oc.Full = render(layout)
			}
		case t.Goexit:
			oc.Verdict = "GOEXIT"
			oc.Hash = hashOf("GOEXIT")
		default:
			switch p := t.Panic.(type) {
			case simrt.BudgetExceeded:
				oc.Verdict = "BUDGET"
				oc.Detail = p.Kind
				fn, st := moduleFrame(t.PanicStack)
				oc.Site = fn
				if p.Kind == "ticks" || p.Kind == "bytes" || p.Kind == "depth" || fn == "" {
					// the innermost function when the total budget ran out is arbitrary; name the busiest live activation
					oc.Site = strings.TrimPrefix(p.Fn, "internal/")
				}
				oc.Stack = st
				oc.Hash = hashOf("BUDGET|" + p.Kind)
			case simrt.InjectedPanic:
				oc.Verdict = "INJECTED"
				oc.Detail = p.Error()
				oc.FaultFired = true
				oc.Hash = hashOf("INJECTED")
			case injectedMonitorPanic:
				oc.Verdict = "INJECTED"
				oc.Detail = string(p)
				oc.Hash = hashOf("INJECTED")
			case simrt.HarnessError:
				oc.Verdict = "HARNESS"
				oc.Detail = p.Msg
			case simrt.Deadlock:
				oc.Verdict = "DEADLOCK"
				oc.Detail = p.Msg
			default:
				oc.Verdict = "PANIC"
				oc.Detail = normMsg(t.Panic)
				oc.Site, oc.Stack = moduleFrame(t.PanicStack)
				oc.Hash = hashOf("PANIC|" + oc.Detail + "|" + oc.Site)
			}
		}
		return oc
	}
	return
}

// deepCall runs f at the bottom of a recursion of n frames.
//
//go:noinline
func deepCall(n int, f func()) int {
	if n <= 0 {
		f()
		return 0
	}
	return deepCall(n-1, f) + 1 // not a tail call: the frame stays
}

func runOne(ec *execCtx, c *spec.Call, a *args, r *spec.Resolution, mon *recMon) spec.Outcome {
	ec.stackDepth = r.StackDepth
	cfg, err := groupCfg(ec.job, c, r)
	if err != nil {
		return spec.Outcome{Verdict: "HARNESS", Detail: err.Error()}
	}
	g := simrt.NewGroup(0, cfg)
	body, finish := prepare(ec, c, a, g, mon)
	s := simrt.NewSched(simrt.SchedCfg{Policy: "random", Seed: r.AdvSeed ^ 0x5ced, MaxSteps: 1 << 22})
	t := s.AddRoot(g, body)
	s.Run()
	oc := finish(t)
	if op := s.OrphanPanic; op != nil && g.ChildPanic == nil {
		// a goroutine started by an earlier call of this process (a long-lived worker) panicked while this call ran:
		// nobody can recover that; in real Go the process dies
		switch p := op.(type) {
		case simrt.BudgetExceeded:
			oc.Verdict, oc.Detail = "BUDGET", p.Kind
			oc.Site, oc.Stack = moduleFrame(s.OrphanStack)
			oc.Hash = hashOf("BUDGET|" + p.Kind)
		case simrt.HarnessError:
			oc.Verdict, oc.Detail = "HARNESS", p.Msg
		default:
			oc.Verdict = "FATAL"
			oc.Detail = "panic in a long-lived goroutine started by an earlier Layout call: " + normMsg(op)
			oc.Site, oc.Stack = moduleFrame(s.OrphanStack)
			oc.Hash = hashOf("FATAL|" + oc.Detail + "|" + oc.Site)
		}
	}
	if oc.Bytes > 128<<20 || oc.Verdict == "BUDGET" {
		// do not let this run's garbage count against the next run's live-heap budget
		runtime.GC()
		debug.FreeOSMemory()
	}
	if s.Dead != nil && oc.Verdict == "" {
		oc.Verdict = "DEADLOCK"
		oc.Detail = s.Dead.Msg
	}
	if !t.Done() && oc.Verdict != "DEADLOCK" && oc.Verdict != "BUDGET" && oc.Verdict != "FATAL" && oc.Verdict != "HARNESS" {
		oc.Verdict = "DEADLOCK"
		oc.Detail = "caller task never finished"
		if s.Dead != nil {
			oc.Detail = s.Dead.Msg
		}
	}
	return oc
}

func runMulti(job *spec.Job) spec.Result {
	var res spec.Result
	if len(job.Calls) != 1 {
		return spec.Result{Error: "multi job needs exactly one call"}
	}
	c := &job.Calls[0]
	for i := range job.Res {
		a, err := buildArgs(c, nil)
		if err != nil {
			return spec.Result{Error: err.Error()}
		}
		ec := &execCtx{job: job}
		oc := runOne(ec, c, a, &job.Res[i], nil)
		res.Outcomes = append(res.Outcomes, oc)
		if (oc.Verdict == "BUDGET" || oc.Verdict == "DEADLOCK" || oc.Verdict == "FATAL") && (oc.Tasks > 1 || simrt.Orphans() > 0) && i+1 < len(job.Res) {
			// a call that involved several goroutines was cut short: the goroutines it shared with the rest of the process
			// (long-lived workers) are in an undefined state, and in real Go the process would be hung or dead. The remaining
			// resolutions are not run here; the supervisor runs each of them in a process of its own.
			break
		}
	}
	return res
}

// ---------------------------------------------------------------------------------------------
// histories (C07 history independence, C18)

type history struct {
	seq     uint64
	current int
	events  []spec.Event
	nested  []spec.NestedRec
}

func (h *history) next() uint64 { h.seq++; return h.seq }

type injectedMonitorPanic string

type recMon struct {
	name  string
	h     *history
	fault string
	at    int
	count int // events delivered while armed for the current call
	fired bool
	armed bool
	nested    *spec.Call
	nestedMon string
}

func (m *recMon) Log(phase int, alg, key string, val any) {
	seq := m.h.next()
	m.h.events = append(m.h.events, spec.Event{Seq: seq, Monitor: m.name, Call: m.h.current, Phase: phase, Alg: alg, Key: key})
	if t := simrt.Cur(); t != nil {
		t.G.Note(uint64(phase), uint64(len(key)))
	}
	m.count++
	if m.armed && m.fault != "" && m.count == m.at {
		m.fired = true
		m.armed = false
		switch m.fault {
		case "nested":
			m.runNested()
		case "panic":
			panic(injectedMonitorPanic("injected panic in Monitor.Log at event " + strconv.Itoa(m.at)))
		case "goexit":
			runtime.Goexit()
		}
	}
}

// runNested makes a re-entrant Layout call from inside the callback, on the same goroutine (same simulated task).
func (m *recMon) runNested() {
	if m.nested == nil {
		return
	}
	var inner *recMon
	name := ""
	switch m.nestedMon {
	case "record":
		inner = &recMon{name: fmt.Sprintf("%s.nested", m.name), h: m.h}
		name = inner.name
	case "same":
		inner = m
		name = m.name
	}
	a, err := buildArgs(m.nested, monOrNil(inner))
	if err != nil {
		return
	}
	rec := spec.NestedRec{Parent: m.h.current, Monitor: name, Verdict: "OK"}
	rec.Invoke = m.h.next()
	func() {
		defer func() {
			if r := recover(); r != nil {
				rec.Verdict = "PANIC"
				switch r.(type) {
				case simrt.BudgetExceeded, simrt.HarnessError, simrt.Deadlock:
					panic(r) // simulator verdicts are not the library's: let them end the outer call
				}
			}
		}()
		_ = autog.Layout(a.src, a.opts...)
	}()
	rec.End = m.h.next()
	m.h.nested = append(m.h.nested, rec)
}

func runHistory(job *spec.Job) spec.Result {
	var res spec.Result
	if len(job.Res) == 0 {
		job.Res = []spec.Resolution{{Adv: "identity"}}
	}
	h := &history{current: -1}
	shared := map[string]*recMon{}
	built := make([]*args, len(job.Calls))
	for i := range job.Calls {
		c := &job.Calls[i]
		var mon *recMon
		switch {
		case c.Monitor.Role == "":
		case c.Monitor.Role == "record":
			mon = &recMon{name: fmt.Sprintf("M%d", i), h: h}
		case strings.HasPrefix(c.Monitor.Role, "shared:"):
			mon = shared[c.Monitor.Role]
			if mon == nil {
				mon = &recMon{name: c.Monitor.Role, h: h}
				shared[c.Monitor.Role] = mon
			}
		default:
			return spec.Result{Error: "bad monitor role " + c.Monitor.Role}
		}
		if mon != nil {
			mon.fault, mon.at, mon.count, mon.fired, mon.armed = c.Monitor.Fault, c.Monitor.At, 0, false, c.Monitor.Fault != ""
			mon.nested, mon.nestedMon = c.Monitor.Nested, c.Monitor.NestedMon
		}
		var a *args
		if c.SameAs != nil && *c.SameAs >= 0 && *c.SameAs < i {
			a = built[*c.SameAs]
			// the caller edits its own objects between the two calls (never during one)
			for _, e := range c.EditSizes {
				if a.sizes == nil {
					break
				}
				if e.W < 0 {
					delete(a.sizes, e.ID)
				} else {
					a.sizes[e.ID] = graph.Size{W: e.W, H: e.H}
				}
			}
			if len(c.EditEdges) == len(a.src) {
				for x := range c.EditEdges {
					if len(c.EditEdges[x]) == len(a.src[x]) {
						copy(a.src[x], c.EditEdges[x])
					}
				}
			}
			a.snapshot()
		} else {
			var err error
			a, err = buildArgs(c, monOrNil(mon))
			if err != nil {
				return spec.Result{Error: err.Error()}
			}
		}
		built[i] = a
		r := &job.Res[0]
		if len(job.Res) == len(job.Calls) {
			r = &job.Res[i]
		}
		ec := &execCtx{job: job, hist: h, callIdx: i}
		oc := runOne(ec, c, a, r, mon)
		for rep := 1; rep < c.Repeat && oc.Verdict == "OK"; rep++ {
			a.snapshot()
			oc = runOne(ec, c, a, r, mon)
		}
		res.Outcomes = append(res.Outcomes, oc)
		if oc.Verdict == "FATAL" || oc.Verdict == "HARNESS" || ((oc.Verdict == "BUDGET" || oc.Verdict == "DEADLOCK") && (oc.Tasks > 1 || simrt.Orphans() > 0)) {
			// the process would be dead (or, for an aborted multi-goroutine call, in an undefined state):
			// the history ends here; later calls are not executed
			break
		}
	}
	res.Events = h.events
	res.Nested = h.nested
	return res
}

func monOrNil(m *recMon) any {
	if m == nil {
		return nil
	}
	return m
}

// ---------------------------------------------------------------------------------------------
// concurrent callers under the cooperative scheduler (C15)

func runConc(job *spec.Job) spec.Result {
	var res spec.Result
	if len(job.Res) == 0 {
		job.Res = []spec.Resolution{{Adv: "identity"}}
	}
	resOf := func(i int) *spec.Resolution {
		if len(job.Res) == len(job.Calls) {
			return &job.Res[i]
		}
		return &job.Res[0]
	}
	// concurrent run first: package-level state that is initialised lazily is still cold in a fresh process
	sc := simrt.SchedCfg{Policy: "random", MaxSteps: 1 << 24}
	if job.Sched != nil {
		sc = simrt.SchedCfg{Policy: job.Sched.Policy, Seed: job.Sched.Seed, Depth: job.Sched.Depth, Steps: job.Sched.Steps, EntryPct: job.Sched.EntryPct, LoopPct: job.Sched.LoopPct,
			Explicit: job.Sched.Explicit, MaxSteps: 1 << 24}
	}
	s := simrt.NewSched(sc)
	type slot struct {
		t      *simrt.Task
		finish func(*simrt.Task) spec.Outcome
	}
	var slots []slot
	builtConc := make([]*args, len(job.Calls))
	for i := range job.Calls {
		a, err := buildArgs(&job.Calls[i], nil)
		if err != nil {
			return spec.Result{Error: err.Error()}
		}
		builtConc[i] = a
		if so := job.Calls[i].ShareOpts; so != nil && *so >= 0 && *so < i {
			// same Option values (and the size map they capture) as an earlier caller; the source stays this caller's own
			a.opts, a.sizes, a.sizes2 = builtConc[*so].opts, builtConc[*so].sizes, builtConc[*so].sizes2
			a.snapshot()
		}
		cfg, err := groupCfg(job, &job.Calls[i], resOf(i))
		if err != nil {
			return spec.Result{Error: err.Error()}
		}
		g := simrt.NewGroup(i, cfg)
		ec := &execCtx{job: job}
		body, finish := prepare(ec, &job.Calls[i], a, g, nil)
		t := s.AddRoot(g, body)
		slots = append(slots, slot{t, finish})
	}
	s.Run()
	for _, sl := range slots {
		oc := sl.finish(sl.t)
		if !sl.t.Done() && oc.Verdict != "BUDGET" && oc.Verdict != "FATAL" && oc.Verdict != "HARNESS" {
			oc.Verdict = "DEADLOCK"
			if s.Dead != nil {
				oc.Detail = s.Dead.Msg
			}
		}
		res.Outcomes = append(res.Outcomes, oc)
	}
	// solo references afterwards, same task-local streams
	for i := range job.Calls {
		a, err := buildArgs(&job.Calls[i], nil)
		if err != nil {
			return spec.Result{Error: err.Error()}
		}
		ec := &execCtx{job: job}
		res.Solo = append(res.Solo, runOne(ec, &job.Calls[i], a, resOf(i), nil))
	}
	for _, c := range s.Conflicts {
		name := fmt.Sprintf("var#%d", c.Var)
		if c.Var < len(simrt.VarNames) {
			name = simrt.VarNames[c.Var]
		}
		loc := "var"
		if c.Loc == 1 {
			loc = "pointee"
		}
		res.Conflicts = append(res.Conflicts, spec.Conflict{Var: name, Loc: loc, A: accName(c.AccA, c.KindA), B: accName(c.AccB, c.KindB), TaskA: c.TaskA, TaskB: c.TaskB})
	}
	res.SchedFP = strconv.FormatUint(s.Fingerprint(), 16)
	if job.RecordPerms || job.WantFull || len(s.RLE) <= 64 {
		res.SchedRLE = s.RLE // the full decision list can be long: returned on request (replay / minimisation) only
	} else {
		res.SchedRLE = s.RLE[:64]
	}
	res.Switches = s.Switches
	res.Yields = s.Yields
	res.Overlap = s.SwitchedInside()
	res.Accesses = map[string]int{}
	for i := 0; i < len(simrt.VarNames)+1; i++ {
		for k := 0; k < 5; k++ {
			if n := s.AccCount[[2]int{i, k}]; n > 0 {
				name := fmt.Sprintf("var#%d", i)
				if i < len(simrt.VarNames) {
					name = simrt.VarNames[i]
				}
				res.Accesses[name+"/"+simrt.KindName[k]] = n
			}
		}
	}
	return res
}

func accName(acc, kind int) string {
	if acc >= 0 && acc < len(accInfo) {
		return accInfo[acc]
	}
	return fmt.Sprintf("%s@acc#%d", simrt.KindName[kind], acc)
}

// ---------------------------------------------------------------------------------------------
// real-thread stress (adjunct oracle; meant for the un-instrumented -race build)

func plainCall(c *spec.Call, shared *args) (oc spec.Outcome) {
	a, err := buildArgs(c, nil)
	if err != nil {
		return spec.Outcome{Verdict: "HARNESS", Detail: err.Error()}
	}
	if shared != nil {
		a.opts, a.sizes, a.sizes2 = shared.opts, shared.sizes, shared.sizes2
		a.snapshot()
	}
	defer func() {
		if r := recover(); r != nil {
			oc.Verdict = "PANIC"
			oc.Detail = normMsg(r)
			oc.Site, oc.Stack = moduleFrame(debug.Stack())
			oc.Hash = hashOf("PANIC|" + oc.Detail + "|" + oc.Site)
		}
		if m := a.mutated(); m != "" {
			oc.ArgsMutated = m
		}
	}()
	l := autog.Layout(a.src, a.opts...)
	oc.Verdict = "OK"
	oc.Hash = hashOf(serialise(l))
	oc.Nodes, oc.Edges = len(l.Nodes), len(l.Edges)
	return
}

func runStress(job *spec.Job) spec.Result {
	var res spec.Result
	// sequential references
	for i := range job.Calls {
		res.Solo = append(res.Solo, plainCall(&job.Calls[i], nil))
	}
	if job.Goroutines <= 1 {
		// repeated sequential calls (C07 real-runtime adjunct): Rounds extra calls per input
		for r := 0; r < job.Rounds; r++ {
			for i := range job.Calls {
				oc := plainCall(&job.Calls[i], nil)
				if job.Calls[i].Opts.P1 == "greedy-random" {
					continue
				}
				if oc.Hash != res.Solo[i].Hash || oc.ArgsMutated != "" {
					oc.Detail = fmt.Sprintf("call %d round %d: %s (first call: %s) %s", i, r, oc.Hash, res.Solo[i].Hash, oc.ArgsMutated)
					res.Outcomes = append(res.Outcomes, oc)
				}
			}
		}
		return res
	}
	sharedArgs := make([]*args, len(job.Calls))
	if job.ShareOpts {
		for i := range job.Calls {
			if a, err := buildArgs(&job.Calls[i], nil); err == nil {
				sharedArgs[i] = a
			}
		}
	}
	var wg sync.WaitGroup
	var mu sync.Mutex
	var diffs []spec.Outcome
	var completed atomic.Int64
	start := make(chan struct{})
	for gi := 0; gi < job.Goroutines; gi++ {
		wg.Add(1)
		go func(gi int) {
			defer wg.Done()
			<-start
			for r := 0; r < job.Rounds; r++ {
				i := (gi + r) % len(job.Calls)
				oc := plainCall(&job.Calls[i], sharedArgs[i])
				completed.Add(1)
				if job.Calls[i].Opts.P1 == "greedy-random" {
					continue // clock-seeded by design: runs for the race detector's benefit, results are not comparable
				}
				if oc.Hash != res.Solo[i].Hash {
					mu.Lock()
					oc.Detail = fmt.Sprintf("goroutine %d round %d call %d: concurrent result %s differs from sequential %s; %s", gi, r, i, oc.Hash, res.Solo[i].Hash, oc.Detail)
					diffs = append(diffs, oc)
					mu.Unlock()
				}
			}
		}(gi)
	}
	close(start)
	allDone := make(chan struct{})
	go func() { wg.Wait(); close(allDone) }()
	// stall watchdog: every input returned alone (and within a small simulated budget) a moment ago. If NO call completes
	// anywhere for several minutes the goroutines are stuck for good; what was observed until then (result differences,
	// race reports on stderr) is handed back instead of being lost to the supervisor's timeout. The stall itself is
	// reported as trouble, never as a verdict: it is a wall-clock observation.
	last, lastAt := int64(0), time.Now()
	tick := time.NewTicker(2 * time.Second)
	defer tick.Stop()
wait:
	for {
		select {
		case <-allDone:
			break wait
		case <-tick.C:
			if n := completed.Load(); n != last {
				last, lastAt = n, time.Now()
			} else if time.Since(lastAt) > 4*time.Minute {
				buf := make([]byte, 1<<20)
				buf = buf[:runtime.Stack(buf, true)]
				fns := map[string]int{}
				for _, blk := range strings.Split(string(buf), "\n\n") {
					for _, ln := range strings.Split(blk, "\n") {
						if strings.HasPrefix(ln, "github.com/nulab/autog/") && !strings.Contains(ln, "/zzverif/") {
							if k := strings.Index(ln, "("); k > 0 {
								ln = ln[:k]
							}
							fns[strings.TrimPrefix(ln, "github.com/nulab/autog/")]++
							break
						}
					}
				}
				var parts []string
				for f, n := range fns {
					parts = append(parts, fmt.Sprintf("%s x%d", f, n))
				}
				sort.Strings(parts)
				res.Stalled = fmt.Sprintf("no Layout call completed for %v after %d completed calls; innermost library frames of the stuck goroutines: %s", time.Since(lastAt).Round(time.Second), last, strings.Join(parts, ", "))
				break wait
			}
		}
	}
	mu.Lock()
	res.Outcomes = append(res.Outcomes, diffs...)
	mu.Unlock()
	return res
}
