package simrt

import (
	"fmt"
	"runtime"
	"runtime/debug"
	"sync"
	"unsafe"
)

// SchedCfg selects the scheduling policy of a run.
type SchedCfg struct {
	Policy   string // serial | rr | random | pct | stall | explicit
	Seed     uint64
	Depth    int   // pct change points
	EntryPct int   // percentage of function entries that are additional yield points
	LoopPct  int   // percentage (in 1/10 %) of loop iterations that are additional yield points
	Explicit []int // run-length encoded decisions: task, count, task, count...
	MaxSteps int
	Steps    int // pct: expected number of scheduling steps (range for the change points)
}

// Sched is the cooperative scheduler. Tasks are real goroutines, but exactly one runs at a
// time: every other one is parked on its resume channel. Which one proceeds at a yield point
// is decided here, from the schedule stream or an explicit schedule.
type Sched struct {
	cfg   SchedCfg
	rng   rng
	erng  rng
	crng  rng // choices other than "which task runs": which ready select clause, which Cond waiter
	lastChance bool
	postJumps  int
	rehomed    bool
	tasks []*Task
	back  chan *Task
	step  int

	// decisions, run-length encoded
	RLE      []int
	Switches int
	Yields   int
	fp       uint64
	last     int

	// explicit cursor
	exI, exLeft int

	// pct
	changeAt map[int]bool
	// stall
	stallLeft map[int]int

	// access log / race detection
	vars      map[int]*varState
	Conflicts []ConflictRec
	confSeen  map[string]bool
	AccCount  map[[2]int]int // (var,kind) -> count
	firstAcc  map[int]int    // task -> step of first shared access
	lastAcc   map[int]int
	switchedInside bool

	Leaked int
	Dead   *Deadlock
	Adopted     int // tasks taken over from earlier runs of the process
	OrphanPanic any // a panic in an adopted task: process-fatal in real Go
	OrphanStack []byte
}

type ConflictRec struct {
	Var          int
	Loc          int
	AccA, AccB   int
	KindA, KindB int
	TaskA, TaskB int
}

type epoch struct {
	task int
	clk  uint64
	acc  int
	kind int
}

type locState struct {
	w     *epoch
	reads map[int]epoch // task -> last read
}

type varState struct{ loc [2]locState }

var sched *Sched

// Goroutines that a call starts and that outlive it (a worker pool started on first use, a janitor) are part of the
// process, not of the call: tasks that have not finished when a scheduler's run ends are adopted by the next scheduler
// of the process, in their blocked or runnable state, and go on under its decisions. All schedulers of a process share
// one hand-back channel, so that a parked task finds its way back whichever scheduler resumes it.
var (
	backCh  = make(chan *Task)
	orphans []*Task
)

// Orphans reports how many tasks of earlier runs are waiting to be adopted (evidence).
func Orphans() int { return len(orphans) }

func NewSched(cfg SchedCfg) *Sched {
	s := &Sched{cfg: cfg, back: backCh, last: -1}
	for _, o := range orphans {
		o.ID = len(s.tasks)
		o.vc = nil
		o.vcSet(o.ID, 1)
		o.adopted = true
		s.tasks = append(s.tasks, o)
	}
	s.Adopted = len(orphans)
	orphans = nil
	s.rng = rng{s: Mix(cfg.Seed, 11)}
	s.erng = rng{s: Mix(cfg.Seed, 12)}
	s.crng = rng{s: Mix(cfg.Seed, 13)}
	s.vars = map[int]*varState{}
	s.confSeen = map[string]bool{}
	s.AccCount = map[[2]int]int{}
	s.firstAcc = map[int]int{}
	s.lastAcc = map[int]int{}
	s.fp = 0xcbf29ce484222325
	if cfg.MaxSteps == 0 {
		s.cfg.MaxSteps = 1 << 30
	}
	return s
}

func (s *Sched) newTask(g *Group, body func(), parent *Task) *Task {
	t := &Task{ID: len(s.tasks), G: g, body: body, resume: make(chan struct{})}
	n := len(s.tasks) + 1
	t.vc = make([]uint64, n)
	if parent != nil {
		copy(t.vc, parent.vc)
		parent.vcTick()
	}
	t.vcSet(t.ID, 1)
	t.prio = 1000 + s.rng.intn(1000)
	g.NTasks++
	s.tasks = append(s.tasks, t)
	go s.taskMain(t)
	return t
}

func (t *Task) vcGet(i int) uint64 {
	if i < len(t.vc) {
		return t.vc[i]
	}
	return 0
}

func (t *Task) vcSet(i int, v uint64) {
	for len(t.vc) <= i {
		t.vc = append(t.vc, 0)
	}
	t.vc[i] = v
}

func (t *Task) vcTick() { t.vcSet(t.ID, t.vcGet(t.ID)+1) }

func (t *Task) vcJoin(o []uint64) {
	for i, v := range o {
		if v > t.vcGet(i) {
			t.vcSet(i, v)
		}
	}
}

func (t *Task) Done() bool { return t.done }

// AddRoot registers a caller task (one Layout call).
func (s *Sched) AddRoot(g *Group, body func()) *Task {
	if !s.rehomed {
		// long-lived goroutines of the process work for whoever calls next: they join the (first) call of this run -
		// their work is charged to its budgets, their choices come from its streams, they share its allocation registry
		s.rehomed = true
		for _, o := range s.tasks {
			if o.adopted && !o.done {
				o.G = g
				g.NTasks++
			}
		}
	}
	t := s.newTask(g, body, nil)
	t.Root = true
	return t
}

func (s *Sched) taskMain(t *Task) {
	<-t.resume
	defer func() {
		if r := recover(); r != nil {
			t.Panic = r
			t.PanicStack = debug.Stack()
			if !t.Root && t.G.ChildPanic == nil {
				t.G.ChildPanic = r
				t.G.ChildStack = t.PanicStack
			}
			if t.adopted && sched != nil && sched.OrphanPanic == nil {
				sched.OrphanPanic = r
				sched.OrphanStack = t.PanicStack
			}
		} else if !t.Finished {
			t.Goexit = true
		}
		if t.Root {
			for _, o := range s.tasks {
				if o != t && !o.done && o.G == t.G {
					t.LiveOthersAtEnd++
				}
			}
		}
		t.done = true
		backCh <- t
	}()
	t.body()
	t.Finished = true
}

func (s *Sched) runnable() []*Task {
	var r []*Task
	for _, t := range s.tasks {
		if !t.done && !t.blocked {
			r = append(r, t)
		}
	}
	return r
}

func (s *Sched) liveCount() int {
	n := 0
	for _, t := range s.tasks {
		if !t.done {
			n++
		}
	}
	return n
}

func (s *Sched) pick(r []*Task) *Task {
	switch s.cfg.Policy {
	case "serial":
		return r[0]
	case "rr":
		for _, t := range r {
			if t.ID > s.last {
				return t
			}
		}
		return r[0]
	case "random":
		return r[s.rng.intn(len(r))]
	case "pct":
		if s.changeAt == nil {
			s.changeAt = map[int]bool{}
			n := s.cfg.Steps
			if n <= 0 {
				n = 400
			}
			for i := 0; i < s.cfg.Depth; i++ {
				s.changeAt[1+s.rng.intn(n)] = true
			}
		}
		if s.changeAt[s.step] && s.last >= 0 && s.last < len(s.tasks) {
			s.tasks[s.last].prio = s.cfg.Depth - len(s.changeAt) - s.step // lower than any initial priority
		}
		best := r[0]
		for _, t := range r[1:] {
			if t.prio > best.prio {
				best = t
			}
		}
		return best
	case "stall":
		// random scheduling with short, frequent stalls: with probability Depth/1000 the task that has just reached a
		// yield point (before an atomic operation, a lock, a shared variable, a sampled loop iteration) is held back for
		// the next 3..Steps scheduling decisions while the others run. The windows of lock-free code - between the load and
		// the compare-and-swap of a pop, between two critical sections of a check-then-act - are one or two instructions
		// wide; they are hit when the task inside is descheduled there while OTHERS complete whole operations, which a
		// uniformly random choice at every step practically never does and a priority schedule does only d times per run.
		if s.stallLeft == nil {
			s.stallLeft = map[int]int{}
		}
		for id, n := range s.stallLeft {
			if n <= 1 {
				delete(s.stallLeft, id)
			} else {
				s.stallLeft[id] = n - 1
			}
		}
		pm, maxLen := s.cfg.Depth, s.cfg.Steps
		if pm <= 0 {
			pm = 20
		}
		if maxLen < 4 {
			maxLen = 24
		}
		if s.last >= 0 && s.stallLeft[s.last] == 0 && s.rng.intn(1000) < pm {
			s.stallLeft[s.last] = 3 + s.rng.intn(maxLen-2)
		}
		var free []*Task
		for _, t := range r {
			if s.stallLeft[t.ID] == 0 {
				free = append(free, t)
			}
		}
		if len(free) == 0 {
			free = r
		}
		return free[s.rng.intn(len(free))]
	case "explicit":
		for s.exLeft == 0 && s.exI+1 < len(s.cfg.Explicit) {
			s.exLeft = s.cfg.Explicit[s.exI+1]
			if s.exLeft > 0 {
				break
			}
			s.exI += 2
		}
		if s.exLeft > 0 {
			want := s.cfg.Explicit[s.exI]
			s.exLeft--
			if s.exLeft == 0 {
				s.exI += 2
			}
			for _, t := range r {
				if t.ID == want {
					return t
				}
			}
		}
		// schedule exhausted or designated task not runnable: keep running the last task if possible
		for _, t := range r {
			if t.ID == s.last {
				return t
			}
		}
		return r[0]
	}
	return r[0]
}

// Run executes all tasks to completion under the policy.
func (s *Sched) Run() {
	prev := sched
	sched = s
	defer func() {
		sched = prev
		cur = nil
		// whoever has not finished lives on in the process
		for _, t := range s.tasks {
			if !t.done {
				orphans = append(orphans, t)
			}
		}
	}()
	for {
		r := s.runnable()
		if len(r) == 0 {
			if n := s.liveCount(); n > 0 {
				// nothing can run: simulated time jumps to the earliest pending timer ...
				if s.jumpToNextTimer() {
					continue
				}
				// ... or every blocked task looks once more (a channel may have been closed by code the simulator does
				// not see); if none of them gets anywhere, nothing can ever change
				if !s.lastChance {
					s.lastChance = true
					s.wakeAll()
					continue
				}
				s.Dead = &Deadlock{Msg: fmt.Sprintf("%d task(s) blocked forever", n)}
				s.Leaked = n
			} else if s.postJumps < 64 && s.jumpTimer(true) {
				// every task has finished but a timer is still pending (bounded: a ticker never runs dry)
				s.postJumps++
				continue
			}
			return
		}
		t := s.pick(r)
		if t.spin > 2000 && len(r) > 1 {
			// a task that does nothing but poll (atomic operations, TryLock, non-blocking selects) must not starve the
			// task it is waiting for under a priority or replay policy: give the others a turn
			t.spin = 0
			for _, o := range r {
				if o != t {
					t = o
					break
				}
			}
		}
		s.step++
		if s.step > s.cfg.MaxSteps {
			s.Dead = &Deadlock{Msg: "scheduler step budget exceeded"}
			return
		}
		if t.ID != s.last {
			if s.last >= 0 {
				s.Switches++
				// did the switch happen between the first and last shared access of the task we leave?
				if _, ok := s.firstAcc[s.last]; ok && !s.tasks[s.last].done {
					s.switchedInside = true
				}
			}
			s.RLE = append(s.RLE, t.ID, 0)
		}
		s.RLE[len(s.RLE)-1]++
		s.fp = (s.fp ^ uint64(t.ID+1)) * 0x100000001b3
		s.last = t.ID
		cur = t
		t.resume <- struct{}{}
		<-s.back
		cur = nil
		if !t.blocked {
			s.lastChance = false
		}
	}
}

func (s *Sched) Fingerprint() uint64 { return s.fp }

// choose decides among n alternatives that are not tasks (ready clauses of a select, waiters of a Cond).
func (s *Sched) choose(n int) int {
	if n <= 1 {
		return 0
	}
	return s.crng.intn(n)
}

// SwitchedInside reports whether some context switch happened after a task's first access to
// shared state and before that task finished.
func (s *Sched) SwitchedInside() bool { return s.switchedInside }

// yield parks the calling task and lets the scheduler decide who runs next.
func (s *Sched) yield(t *Task) {
	if s.liveCount() < 2 && !t.blocked {
		return // nobody to switch to
	}
	s.Yields++
	s.back <- t
	<-t.resume
}

func (s *Sched) maybeYieldAtEntry(t *Task) {
	if s.cfg.EntryPct <= 0 || s.liveCount() < 2 {
		return
	}
	if s.erng.intn(100) < s.cfg.EntryPct {
		s.yield(t)
	}
}

func (s *Sched) maybeYieldAtLoop(t *Task) {
	if s.cfg.LoopPct <= 0 || s.liveCount() < 2 {
		return
	}
	if s.erng.intn(1000) < s.cfg.LoopPct {
		s.yield(t)
	}
}

// ---------------------------------------------------------------------------------------------
// R5: package-level variable accesses

// A is called for every use of a package-level variable. It is a yield point and an entry in
// the access log. acc indexes the instrumenter's access table (source position).
func A[T any](acc, v int, kind int, p *T) *T {
	t := cur
	if t == nil || sched == nil {
		return p
	}
	sched.access(t, acc, v, kind)
	return p
}

func (s *Sched) access(t *Task, acc, v, kind int) {
	s.yield(t)
	t.G.ev(uint64(acc)|6<<40, uint64(kind))
	s.AccCount[[2]int{v, kind}]++
	if _, ok := s.firstAcc[t.ID]; !ok {
		s.firstAcc[t.ID] = s.step
	}
	s.lastAcc[t.ID] = s.step
	if kind == KU {
		return
	}
	vs := s.vars[v]
	if vs == nil {
		vs = &varState{}
		s.vars[v] = vs
	}
	e := epoch{task: t.ID, clk: t.vcGet(t.ID), acc: acc, kind: kind}
	switch kind {
	case KR:
		s.read(t, v, 0, &vs.loc[0], e)
	case KW:
		s.write(t, v, 0, &vs.loc[0], e)
	case KRT:
		s.read(t, v, 0, &vs.loc[0], e)
		s.read(t, v, 1, &vs.loc[1], e)
	case KWT:
		s.read(t, v, 0, &vs.loc[0], e)
		s.write(t, v, 1, &vs.loc[1], e)
	}
}

func (s *Sched) conflict(v, loc int, a, b epoch) {
	key := fmt.Sprintf("%d/%d/%d/%d", v, loc, min(a.acc, b.acc), max(a.acc, b.acc))
	if s.confSeen[key] {
		return
	}
	s.confSeen[key] = true
	s.Conflicts = append(s.Conflicts, ConflictRec{Var: v, Loc: loc, AccA: a.acc, AccB: b.acc, KindA: a.kind, KindB: b.kind, TaskA: a.task, TaskB: b.task})
}

func (s *Sched) read(t *Task, v, loc int, ls *locState, e epoch) {
	if w := ls.w; w != nil && w.task != t.ID && w.clk > t.vcGet(w.task) {
		s.conflict(v, loc, *w, e)
	}
	if ls.reads == nil {
		ls.reads = map[int]epoch{}
	}
	ls.reads[t.ID] = e
}

func (s *Sched) write(t *Task, v, loc int, ls *locState, e epoch) {
	if w := ls.w; w != nil && w.task != t.ID && w.clk > t.vcGet(w.task) {
		s.conflict(v, loc, *w, e)
	}
	for i := 0; i < len(s.tasks); i++ { // deterministic order, never range over the map
		r, ok := ls.reads[i]
		if ok && r.task != t.ID && r.clk > t.vcGet(r.task) {
			s.conflict(v, loc, r, e)
		}
	}
	ee := e
	ls.w = &ee
}

// ---------------------------------------------------------------------------------------------
// R7 / R8: simulated synchronisation. State is kept per primitive address.

type syncState struct {
	held    bool
	holder  int
	readers int
	vc      []uint64
	count   int  // waitgroup counter
	onceDone bool
	onceRunning bool
}

var (
	syncMu   sync.Mutex // protects syncTab against init-time goroutines only; simulated tasks are serial
	syncTab  = map[any]*syncState{}
)

func stateOf(p any) *syncState {
	syncMu.Lock()
	defer syncMu.Unlock()
	st := syncTab[p]
	if st == nil {
		st = &syncState{}
		syncTab[p] = st
	}
	return st
}

// ResetSync forgets all simulated primitive state (between runs).
func ResetSync() {
	syncMu.Lock()
	syncTab = map[any]*syncState{}
	syncMu.Unlock()
	orphans = nil
	conds = map[*sync.Cond][]*condWaiter{}
	atomics = map[unsafe.Pointer]*[]uint64{}
	sticky = map[unsafe.Pointer][]*Task{}
}

func (s *Sched) block(t *Task, cond func() bool) {
	for !cond() {
		t.blocked = true
		// wake-up is by re-evaluation: mark every blocked task runnable whenever state changes
		s.Yields++
		s.back <- t
		<-t.resume
	}
	t.blocked = false
}

func (s *Sched) wakeAll() {
	for _, t := range s.tasks {
		t.blocked = false
	}
}

func acquireHB(t *Task, st *syncState) { t.vcJoin(st.vc) }
func releaseHB(t *Task, st *syncState) {
	st.vc = append(st.vc[:0], t.vc...)
	t.vcTick()
}

func MutexLock(m *sync.Mutex) {
	t := cur
	if t == nil || sched == nil {
		m.Lock()
		return
	}
	st := stateOf(m)
	sched.yield(t)
	sched.block(t, func() bool { return !st.held })
	st.held, st.holder = true, t.ID
	acquireHB(t, st)
}

func MutexTryLock(m *sync.Mutex) bool {
	t := cur
	if t == nil || sched == nil {
		return m.TryLock()
	}
	st := stateOf(m)
	t.spin++
	sched.yield(t)
	if st.held {
		return false
	}
	st.held, st.holder = true, t.ID
	acquireHB(t, st)
	return true
}

func MutexUnlock(m *sync.Mutex) {
	t := cur
	if t == nil || sched == nil {
		m.Unlock()
		return
	}
	st := stateOf(m)
	if !st.held {
		panic("sync: unlock of unlocked mutex")
	}
	releaseHB(t, st)
	st.held = false
	sched.wakeAll()
	sched.yield(t)
}

func RWLock(m *sync.RWMutex) {
	t := cur
	if t == nil || sched == nil {
		m.Lock()
		return
	}
	st := stateOf(m)
	sched.yield(t)
	sched.block(t, func() bool { return !st.held && st.readers == 0 })
	st.held, st.holder = true, t.ID
	acquireHB(t, st)
}

func RWTryLock(m *sync.RWMutex) bool {
	t := cur
	if t == nil || sched == nil {
		return m.TryLock()
	}
	st := stateOf(m)
	if st.held || st.readers > 0 {
		return false
	}
	st.held, st.holder = true, t.ID
	acquireHB(t, st)
	return true
}

func RWUnlock(m *sync.RWMutex) {
	t := cur
	if t == nil || sched == nil {
		m.Unlock()
		return
	}
	st := stateOf(m)
	if !st.held {
		panic("sync: Unlock of unlocked RWMutex")
	}
	releaseHB(t, st)
	st.held = false
	sched.wakeAll()
	sched.yield(t)
}

func RWRLock(m *sync.RWMutex) {
	t := cur
	if t == nil || sched == nil {
		m.RLock()
		return
	}
	st := stateOf(m)
	sched.yield(t)
	sched.block(t, func() bool { return !st.held })
	st.readers++
	acquireHB(t, st)
}

func RWTryRLock(m *sync.RWMutex) bool {
	t := cur
	if t == nil || sched == nil {
		return m.TryRLock()
	}
	st := stateOf(m)
	if st.held {
		return false
	}
	st.readers++
	acquireHB(t, st)
	return true
}

func RWRUnlock(m *sync.RWMutex) {
	t := cur
	if t == nil || sched == nil {
		m.RUnlock()
		return
	}
	st := stateOf(m)
	if st.readers <= 0 {
		panic("sync: RUnlock of unlocked RWMutex")
	}
	// readers release into the lock's clock by joining (several readers may release)
	for i, v := range t.vc {
		for len(st.vc) <= i {
			st.vc = append(st.vc, 0)
		}
		if v > st.vc[i] {
			st.vc[i] = v
		}
	}
	t.vcTick()
	st.readers--
	sched.wakeAll()
	sched.yield(t)
}

func WGAdd(wg *sync.WaitGroup, n int) {
	t := cur
	if t == nil || sched == nil {
		wg.Add(n)
		return
	}
	st := stateOf(wg)
	st.count += n
	if st.count < 0 {
		panic("sync: negative WaitGroup counter")
	}
	if n < 0 {
		for i, v := range t.vc {
			for len(st.vc) <= i {
				st.vc = append(st.vc, 0)
			}
			if v > st.vc[i] {
				st.vc[i] = v
			}
		}
		t.vcTick()
		sched.wakeAll()
	}
}

func WGDone(wg *sync.WaitGroup) {
	if cur == nil || sched == nil {
		wg.Done()
		return
	}
	WGAdd(wg, -1)
}

func WGWait(wg *sync.WaitGroup) {
	t := cur
	if t == nil || sched == nil {
		wg.Wait()
		return
	}
	st := stateOf(wg)
	sched.block(t, func() bool { return st.count == 0 })
	acquireHB(t, st)
}

func OnceDo(o *sync.Once, f func()) {
	t := cur
	if t == nil || sched == nil {
		o.Do(f)
		return
	}
	st := stateOf(o)
	sched.yield(t)
	if st.onceDone {
		acquireHB(t, st)
		return
	}
	if st.onceRunning {
		sched.block(t, func() bool { return st.onceDone })
		acquireHB(t, st)
		return
	}
	st.onceRunning = true
	defer func() {
		st.onceDone = true
		releaseHB(t, st)
		sched.wakeAll()
	}()
	f()
}

// ---------------------------------------------------------------------------------------------
// sync.Pool: what Get returns (a pooled object, which one, or a fresh one because the runtime dropped the pooled
// ones at a GC or they sit in another P's cache) is up to the runtime - so the simulator decides it. The simulated
// pool content is process state: it survives from one Layout call to the next, like the real one.

type poolState struct {
	items []any
	vcs   [][]uint64
}

var pools = map[*sync.Pool]*poolState{}

// PoolStats counts simulated pool decisions (evidence).
var PoolStats struct{ Gets, Reused, Fresh, Puts, Dropped int }

func poolOf(p *sync.Pool) *poolState {
	st := pools[p]
	if st == nil {
		st = &poolState{}
		pools[p] = st
	}
	return st
}

func PoolGet(p *sync.Pool) any {
	t := cur
	if t == nil {
		return p.Get()
	}
	if sched != nil {
		sched.yield(t)
	}
	st := poolOf(p)
	g := t.G
	PoolStats.Gets++
	reuse, which := false, len(st.items)-1
	if len(st.items) > 0 {
		switch g.cfg.Adv {
		case "", "identity", "overrides":
			reuse = true // canonical: always hand back the most recently pooled object
		case "reverse":
			reuse = false // as if every pooled object had been dropped by a GC
		default:
			reuse = g.adv.intn(100) < 65
			which = g.adv.intn(len(st.items))
		}
	}
	g.ev(7<<40|uint64(len(st.items)), uint64(which+1))
	if reuse {
		x := st.items[which]
		vc := st.vcs[which]
		st.items = append(st.items[:which], st.items[which+1:]...)
		st.vcs = append(st.vcs[:which], st.vcs[which+1:]...)
		t.vcJoin(vc) // Put(x) synchronizes before the Get that returns x
		PoolStats.Reused++
		return x
	}
	PoolStats.Fresh++
	if p.New != nil {
		return p.New()
	}
	return nil
}

func PoolPut(p *sync.Pool, x any) {
	t := cur
	if t == nil {
		p.Put(x)
		return
	}
	if x == nil {
		return
	}
	st := poolOf(p)
	g := t.G
	PoolStats.Puts++
	drop := false
	switch g.cfg.Adv {
	case "", "identity", "overrides", "reverse":
	default:
		drop = g.adv.intn(100) < 15
	}
	g.ev(8<<40, uint64(len(st.items)))
	if drop {
		PoolStats.Dropped++
	} else {
		st.items = append(st.items, x)
		st.vcs = append(st.vcs, append([]uint64(nil), t.vc...))
		t.vcTick()
	}
	if sched != nil {
		sched.yield(t)
	}
}

// Go replaces a go statement inside the library: the new goroutine becomes a simulated task of
// the same group, under the same scheduler.
func Go(f func()) {
	t := cur
	if t == nil || sched == nil {
		go f()
		return
	}
	sched.newTask(t.G, f, t)
	sched.yield(t)
}

// Gosched-like explicit yield for harness code.
func Yield() {
	if t := cur; t != nil && sched != nil {
		sched.yield(t)
	}
}

func init() {
	// a genuine stack overflow of uninstrumented recursion should die fast, not eat the machine
	debug.SetMaxStack(512 << 20)
	_ = runtime.NumCPU
}
