package simrt

import (
	"iter"
	"reflect"
)

// Channel operations of the library (send, receive, range, close) go through here. Buffered channels keep their
// content in the real channel (accessed without blocking); unbuffered rendezvous is modelled with explicit waiter
// queues. A task that cannot proceed is marked blocked and yields; every state change wakes the blocked tasks, which
// re-check. If nothing can ever change the scheduler reports a deadlock (a verdict). select statements are not
// rewritten: with a default clause they never block (and stay real), without one they are an unowned seam.

type chanWaiter struct {
	t    *Task
	val  any
	ok   bool
	done bool
	vc   []uint64
}

type chanState struct {
	ch     any // keeps the channel alive, so that its address is never reused while the state exists
	closed bool
	sendq  []*chanWaiter
	recvq  []*chanWaiter
	vc     []uint64
	selq   []*selWaiter // blocked select statements with a case on this (unbuffered) channel
	stash  []any        // values taken out while probing whether the channel was closed behind the simulator's back
}

var chans = map[uintptr]*chanState{}

// ChanStats counts simulated channel operations (evidence).
var ChanStats struct{ Sends, Recvs, Closes, Blocks int }

func chanOf(ch any) *chanState {
	key := reflect.ValueOf(ch).Pointer()
	st := chans[key]
	if st == nil {
		st = &chanState{ch: ch}
		chans[key] = st
	}
	return st
}

func (s *Sched) blockOnce(t *Task) {
	ChanStats.Blocks++
	t.blocked = true
	s.Yields++
	s.back <- t
	<-t.resume
	t.blocked = false
}

func joinInto(dst *[]uint64, src []uint64) {
	for i, v := range src {
		for len(*dst) <= i {
			*dst = append(*dst, 0)
		}
		if v > (*dst)[i] {
			(*dst)[i] = v
		}
	}
}

func ChanSend[T any](ch chan<- T, v T) {
	t := cur
	if t == nil || sched == nil {
		ch <- v
		return
	}
	ChanStats.Sends++
	sched.yield(t)
	if ch == nil {
		sched.block(t, func() bool { return false }) // send on a nil channel blocks forever
		return
	}
	st := chanOf(ch)
	t.G.ev(10<<40, uint64(cap(ch)))
	if cap(ch) > 0 {
		for {
			if st.closed {
				panic("send on closed channel")
			}
			sent := false
			select {
			case ch <- v:
				sent = true
			default:
			}
			if sent {
				joinInto(&st.vc, t.vc)
				t.vcTick()
				sched.wakeAll()
				return
			}
			sched.blockOnce(t)
		}
	}
	if st.closed {
		panic("send on closed channel")
	}
	if len(st.recvq) > 0 {
		w := st.recvq[0]
		st.recvq = st.recvq[1:]
		w.val, w.ok, w.done = v, true, true
		w.vc = append([]uint64(nil), t.vc...)
		t.vcTick()
		sched.wakeAll()
		return
	}
	if p := st.selPeer(false, nil); p != nil {
		// a blocked select offers to receive
		p.ss.claimed = p.idx
		p.ss.cases[p.idx].deliver(v, true)
		p.ss.hasVal = true
		p.ss.t.vcJoin(t.vc)
		p.ss.unregister()
		t.vcTick()
		sched.wakeAll()
		return
	}
	w := &chanWaiter{t: t, val: v, vc: append([]uint64(nil), t.vc...)}
	st.sendq = append(st.sendq, w)
	t.vcTick()
	sched.block(t, func() bool { return w.done || st.closed })
	if !w.done {
		for i, x := range st.sendq {
			if x == w {
				st.sendq = append(st.sendq[:i], st.sendq[i+1:]...)
				break
			}
		}
		panic("send on closed channel")
	}
}

func ChanRecv2[T any](ch <-chan T) (T, bool) {
	t := cur
	if t == nil || sched == nil {
		v, ok := <-ch
		return v, ok
	}
	ChanStats.Recvs++
	sched.yield(t)
	var zero T
	if ch == nil {
		sched.block(t, func() bool { return false })
		return zero, false
	}
	st := chanOf(ch)
	t.G.ev(11<<40, uint64(cap(ch)))
	if len(st.stash) > 0 {
		return recvNow(t, st, ch)
	}
	if cap(ch) > 0 {
		for {
			got := false
			var v T
			var ok bool
			select {
			case v, ok = <-ch:
				got = true
			default:
			}
			if got {
				t.vcJoin(st.vc)
				sched.wakeAll()
				return v, ok
			}
			sched.blockOnce(t)
		}
	}
	if len(st.sendq) > 0 {
		w := st.sendq[0]
		st.sendq = st.sendq[1:]
		w.done = true
		t.vcJoin(w.vc)
		sched.wakeAll()
		if w.val == nil {
			return zero, true
		}
		return w.val.(T), true
	}
	if st.closed {
		return zero, false
	}
	if st.selPeer(true, nil) != nil {
		return recvNow(t, st, ch) // a blocked select offers to send
	}
	w := &chanWaiter{t: t}
	st.recvq = append(st.recvq, w)
	sched.block(t, func() bool {
		if !w.done && !st.closed {
			probeClosed(st, ch)
		}
		return w.done || st.closed
	})
	if w.done {
		t.vcJoin(w.vc)
		if w.val == nil {
			return zero, w.ok
		}
		return w.val.(T), w.ok
	}
	for i, x := range st.recvq {
		if x == w {
			st.recvq = append(st.recvq[:i], st.recvq[i+1:]...)
			break
		}
	}
	t.vcJoin(st.vc)
	return zero, false
}

func ChanRecv[T any](ch <-chan T) T {
	v, _ := ChanRecv2(ch)
	return v
}

func ChanRange[T any](ch <-chan T) iter.Seq[T] {
	return func(yield func(T) bool) {
		for {
			v, ok := ChanRecv2(ch)
			if !ok {
				return
			}
			if !yield(v) {
				return
			}
		}
	}
}

func ChanClose[T any](ch chan<- T) {
	t := cur
	if t == nil || sched == nil {
		close(ch)
		return
	}
	ChanStats.Closes++
	st := chanOf(ch)
	if st.closed {
		panic("close of closed channel")
	}
	st.closed = true
	joinInto(&st.vc, t.vc)
	t.vcTick()
	close(ch)
	sched.wakeAll()
	sched.yield(t)
}
