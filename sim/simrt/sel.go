package simrt

import (
	"os"
	"reflect"
	"sort"
	"strconv"
	"sync"
	"unsafe"
)

// ---------------------------------------------------------------------------------------------
// select. The statement itself stays in the code; what the rewrite changes are its operands:
//
//	select {
//	case v := <-SelRecv(m, def, 0, c1):  SelDone(0); ...
//	case SelSend(m, def, 1, c2) <- x:    SelDone(1); ...
//	default:                              SelDone(-1); ...
//	}
//
// Go evaluates the channel operands in source order when the statement is entered. Every wrapper returns a private
// proxy channel that is not ready; the wrapper of the last communication clause decides - from the simulated state of
// the real channels and from the schedule stream - which clause proceeds (or blocks the task until one can), and makes
// exactly that clause's proxy ready. The real select then has one possible outcome. SelDone, first statement of every
// clause body, completes a chosen send (the value only exists once the real select has evaluated it).

type selCase struct {
	send    bool
	st      *chanState // nil for a nil channel
	unbuf   bool
	ready   func() bool
	commit  func()   // make the proxy ready (receive: move the value into it; send: make room in it)
	room    func()   // send: make room in the proxy
	forward func()   // send: take the value out of the proxy and deliver it
	deliver func(v any, ok bool) // receive: a peer hands over a value directly
}

type selState struct {
	t       *Task
	depth   int
	hasDef  bool
	cases   []*selCase
	chosen  int
	claimed int        // >= 0: a peer claimed this case while the select was blocked
	hasVal  bool       // receive claimed by a peer: the value has arrived
	partner *chanWaiter // send claimed by a plain receiver: where the value goes
	partnerSel *selState
}

type selWaiter struct {
	ss  *selState
	idx int
}

// SelStats counts simulated select statements (evidence).
var SelStats struct{ Selects, Blocked, Choices, MultiReady int }

func (t *Task) selTop(k int, hasDef bool) *selState {
	if k == 0 {
		// discard states left behind by a select that was abandoned through a panic in an operand
		for len(t.sels) > 0 && t.sels[len(t.sels)-1].depth >= t.depth && t.sels[len(t.sels)-1].chosen == -2 {
			t.sels = t.sels[:len(t.sels)-1]
		}
		ss := &selState{t: t, depth: t.depth, hasDef: hasDef, chosen: -2, claimed: -1}
		t.sels = append(t.sels, ss)
		SelStats.Selects++
		return ss
	}
	if len(t.sels) == 0 {
		panic(HarnessError{Msg: "select operand evaluated without a select state"})
	}
	return t.sels[len(t.sels)-1]
}

func probeClosed[T any](st *chanState, ch <-chan T) {
	// a channel closed by code the simulator does not see (standard library): found out by looking
	if st.closed || len(ch) > 0 {
		return
	}
	select {
	case v, ok := <-ch:
		if !ok {
			st.closed = true
		} else {
			st.stash = append(st.stash, v)
		}
	default:
	}
}

func SelRecv[T any](m int, hasDef bool, k int, ch <-chan T) <-chan T {
	t := cur
	if t == nil || sched == nil {
		return ch
	}
	ss := t.selTop(k, hasDef)
	proxy := make(chan T, 1)
	c := &selCase{}
	if ch != nil {
		st := chanOf(ch)
		c.st, c.unbuf = st, cap(ch) == 0
		c.ready = func() bool {
			if len(st.stash) > 0 || len(ch) > 0 {
				return true
			}
			if c.unbuf && (len(st.sendq) > 0 || st.selPeer(true, ss) != nil) {
				return true
			}
			probeClosed(st, ch)
			return st.closed || len(st.stash) > 0
		}
		c.commit = func() {
			v, ok := recvNow(t, st, ch)
			if ok {
				proxy <- v
			} else {
				close(proxy)
			}
		}
		c.deliver = func(v any, ok bool) {
			if !ok {
				close(proxy)
			} else if v == nil {
				var zero T
				proxy <- zero
			} else {
				proxy <- v.(T)
			}
		}
	} else {
		c.ready = func() bool { return false }
	}
	ss.cases = append(ss.cases, c)
	if k == m-1 {
		ss.decide()
	}
	return proxy
}

// recvNow performs a receive that is known not to block for long (the case was found ready).
func recvNow[T any](t *Task, st *chanState, ch <-chan T) (T, bool) {
	var zero T
	if len(st.stash) > 0 {
		v := st.stash[0]
		st.stash = st.stash[1:]
		if v == nil {
			return zero, true
		}
		return v.(T), true
	}
	if cap(ch) > 0 || st.closed || len(st.sendq) > 0 {
		if cap(ch) == 0 && len(st.sendq) == 0 && st.closed {
			t.vcJoin(st.vc)
			return zero, false
		}
		if cap(ch) > 0 {
			select {
			case v, ok := <-ch:
				t.vcJoin(st.vc)
				return v, ok
			default:
			}
			if st.closed {
				t.vcJoin(st.vc)
				return zero, false
			}
		}
		if len(st.sendq) > 0 {
			w := st.sendq[0]
			st.sendq = st.sendq[1:]
			w.done = true
			t.vcJoin(w.vc)
			if w.val == nil {
				return zero, true
			}
			return w.val.(T), true
		}
	}
	// a blocked select offers to send: claim it and wait for its value
	if p := st.selPeer(true, nil); p != nil {
		w := &chanWaiter{t: t}
		p.ss.claimed, p.ss.partner = p.idx, w
		p.ss.unregister()
		sched.wakeAll()
		sched.block(t, func() bool { return w.done })
		t.vcJoin(w.vc)
		if w.val == nil {
			return zero, w.ok
		}
		return w.val.(T), w.ok
	}
	return zero, false
}

func SelSend[T any](m int, hasDef bool, k int, ch chan<- T) chan<- T {
	t := cur
	if t == nil || sched == nil {
		return ch
	}
	ss := t.selTop(k, hasDef)
	proxy := make(chan T, 1)
	var zero T
	proxy <- zero // full: not ready until chosen
	c := &selCase{send: true}
	c.room = func() { <-proxy }
	if ch != nil {
		st := chanOf(ch)
		c.st, c.unbuf = st, cap(ch) == 0
		c.ready = func() bool {
			if st.closed {
				return true // proceeds, and panics
			}
			if !c.unbuf {
				return len(ch) < cap(ch)
			}
			return len(st.recvq) > 0 || st.selPeer(false, ss) != nil
		}
		var toWaiter *chanWaiter
		var toSel *selWaiter
		c.commit = func() {
			if st.closed {
				panic("send on closed channel")
			}
			if c.unbuf {
				// reserve the receiver now; the value follows in forward
				if len(st.recvq) > 0 {
					toWaiter = st.recvq[0]
					st.recvq = st.recvq[1:]
				} else if p := st.selPeer(false, ss); p != nil {
					toSel = p
					p.ss.claimed = p.idx
					p.ss.unregister()
				}
			}
			c.room()
		}
		c.forward = func() {
			v := <-proxy
			switch {
			case ss.partner != nil: // a plain receiver claimed this case while the select was blocked
				w := ss.partner
				w.val, w.ok, w.done = v, true, true
				w.vc = append([]uint64(nil), t.vc...)
				t.vcTick()
			case toWaiter != nil:
				toWaiter.val, toWaiter.ok, toWaiter.done = v, true, true
				toWaiter.vc = append([]uint64(nil), t.vc...)
				t.vcTick()
			case toSel != nil:
				ps := toSel.ss
				ps.cases[toSel.idx].deliver(v, true)
				ps.hasVal = true
				ps.t.vcJoin(t.vc)
				t.vcTick()
			case !c.unbuf:
				sent := false
				select {
				case ch <- v:
					sent = true
				default:
				}
				if sent {
					joinInto(&st.vc, t.vc)
					t.vcTick()
				} else {
					ChanSend(ch, v) // the room was taken in between (the value expression yielded): an ordinary send
					return
				}
			default:
				ChanSend(ch, v)
				return
			}
			sched.wakeAll()
		}
	} else {
		c.ready = func() bool { return false }
	}
	ss.cases = append(ss.cases, c)
	if k == m-1 {
		ss.decide()
	}
	return proxy
}

// selPeer finds a blocked select (other than self) with an unclaimed case on this channel: wantSend = a send case.
func (st *chanState) selPeer(wantSend bool, self *selState) *selWaiter {
	for _, w := range st.selq {
		if w.ss != self && w.ss.claimed < 0 && w.ss.cases[w.idx].send == wantSend {
			return w
		}
	}
	return nil
}

// unregister removes a select from the waiter queues of all its channels.
func (ss *selState) unregister() {
	for _, c := range ss.cases {
		if c.st == nil {
			continue
		}
		q := c.st.selq[:0]
		for _, w := range c.st.selq {
			if w.ss != ss {
				q = append(q, w)
			}
		}
		c.st.selq = q
	}
}

func (ss *selState) decide() {
	t := ss.t
	sched.yield(t)
	t.G.ev(15<<40, uint64(len(ss.cases)))
	for {
		var ready []int
		for i, c := range ss.cases {
			if c.ready() {
				ready = append(ready, i)
			}
		}
		if len(ready) > 0 {
			pickI := 0
			if len(ready) > 1 {
				SelStats.MultiReady++
				pickI = sched.choose(len(ready))
			}
			SelStats.Choices++
			ss.chosen = ready[pickI]
			t.G.ev(15<<40|1, uint64(ss.chosen))
			ss.cases[ss.chosen].commit()
			sched.wakeAll()
			return
		}
		if ss.hasDef {
			ss.chosen = -1
			return
		}
		SelStats.Blocked++
		for i, c := range ss.cases {
			if c.st != nil && c.unbuf {
				c.st.selq = append(c.st.selq, &selWaiter{ss: ss, idx: i})
			}
		}
		sched.blockOnce(t)
		if ss.claimed >= 0 {
			c := ss.cases[ss.claimed]
			if !c.send {
				// a sender chose this receive: its value arrives with its forward step
				sched.block(t, func() bool { return ss.hasVal })
			} else {
				c.room() // room for the real select's send; the claiming receiver waits for the forward step
			}
			ss.chosen = ss.claimed
			t.G.ev(15<<40|2, uint64(ss.chosen))
			return
		}
		ss.unregister()
	}
}

// SelDone is the first statement of every clause body of a rewritten select.
func SelDone(k int) {
	t := cur
	if t == nil || sched == nil || len(t.sels) == 0 {
		return
	}
	ss := t.sels[len(t.sels)-1]
	t.sels = t.sels[:len(t.sels)-1]
	if k >= 0 && k < len(ss.cases) && ss.cases[k].send && ss.cases[k].forward != nil {
		ss.cases[k].forward()
	}
}

// BlockForever replaces "select {}".
func BlockForever() {
	t := cur
	if t == nil || sched == nil {
		select {}
	}
	sched.block(t, func() bool { return false })
}

// ---------------------------------------------------------------------------------------------
// sync.Cond

type condWaiter struct {
	signaled bool
	vc       []uint64
}

var conds = map[*sync.Cond][]*condWaiter{}

func unlockL(l sync.Locker) {
	switch x := l.(type) {
	case *sync.Mutex:
		MutexUnlock(x)
	case *sync.RWMutex:
		RWUnlock(x)
	default:
		l.Unlock()
	}
}

func lockL(l sync.Locker) {
	switch x := l.(type) {
	case *sync.Mutex:
		MutexLock(x)
	case *sync.RWMutex:
		RWLock(x)
	default:
		l.Lock()
	}
}

func CondWait(c *sync.Cond) {
	t := cur
	if t == nil || sched == nil {
		c.Wait()
		return
	}
	w := &condWaiter{}
	conds[c] = append(conds[c], w)
	unlockL(c.L)
	sched.block(t, func() bool { return w.signaled })
	t.vcJoin(w.vc)
	lockL(c.L)
}

func CondSignal(c *sync.Cond) {
	t := cur
	if t == nil || sched == nil {
		c.Signal()
		return
	}
	if q := conds[c]; len(q) > 0 {
		// which waiter wakes is not specified: the schedule stream decides
		i := 0
		if len(q) > 1 {
			i = sched.choose(len(q))
		}
		w := q[i]
		conds[c] = append(append([]*condWaiter{}, q[:i]...), q[i+1:]...)
		w.signaled = true
		w.vc = append([]uint64(nil), t.vc...)
		t.vcTick()
		sched.wakeAll()
	}
	sched.yield(t)
}

func CondBroadcast(c *sync.Cond) {
	t := cur
	if t == nil || sched == nil {
		c.Broadcast()
		return
	}
	for _, w := range conds[c] {
		w.signaled = true
		w.vc = append([]uint64(nil), t.vc...)
	}
	if len(conds[c]) > 0 {
		t.vcTick()
		sched.wakeAll()
	}
	conds[c] = nil
	sched.yield(t)
}

// ---------------------------------------------------------------------------------------------
// sync/atomic. The operation itself stays real (only one task runs at a time, so it is atomic anyway); the rewrite
// adds a scheduling point before it and, after it, the happens-before edges the Go memory model gives atomics: every
// atomic operation on a variable is treated as an acquire and a release on that variable (an over-approximation of
// "synchronizes-with when observed" - it can only hide a race from the conflict detector, never invent one).
//
//	x.Load()                 ->  AtVal(AtPre(&x).Load())
//	atomic.AddInt64(&n, 1)   ->  AtVal(atomic.AddInt64(AtPre(&n), 1))
//	x.Store(v)   (statement) ->  AtPre(&x).Store(v); AtPost()

type atEntry struct {
	p     unsafe.Pointer
	depth int
}

var atomics = map[unsafe.Pointer]*[]uint64{}

// AtomicStats counts simulated atomic operations (evidence).
var AtomicStats struct{ Ops int }

func AtPre[T any](p *T) *T {
	t := cur
	if t == nil || sched == nil {
		return p
	}
	t.spin++
	sched.yield(t)
	t.ats = append(t.ats, atEntry{unsafe.Pointer(p), t.depth})
	return p
}

func AtPost() {
	t := cur
	if t == nil || sched == nil {
		return
	}
	for len(t.ats) > 0 && t.ats[len(t.ats)-1].depth > t.depth {
		t.ats = t.ats[:len(t.ats)-1] // left behind by a panic in an operand
	}
	if len(t.ats) == 0 {
		return
	}
	e := t.ats[len(t.ats)-1]
	t.ats = t.ats[:len(t.ats)-1]
	AtomicStats.Ops++
	vc := atomics[e.p]
	if vc == nil {
		vc = new([]uint64)
		atomics[e.p] = vc
	}
	t.vcJoin(*vc)
	for _, o := range sticky[e.p] {
		t.vcJoin(o.vc)
	}
	joinInto(vc, t.vc)
	t.vcTick()
	t.G.ev(16<<40, 0)
}

func AtVal[T any](v T) T {
	AtPost()
	return v
}

// AtOnly is used where the operation's end cannot be marked (defer / go statements): the variable becomes "sticky" -
// every later atomic operation on it also acquires whatever this task has done up to then.
func AtOnly[T any](p *T) *T {
	t := cur
	if t == nil || sched == nil {
		return p
	}
	sched.yield(t)
	sticky[unsafe.Pointer(p)] = append(sticky[unsafe.Pointer(p)], t)
	return p
}

var sticky = map[unsafe.Pointer][]*Task{}

// ---------------------------------------------------------------------------------------------
// queries about the machine and the process environment. Inside a call they are a resolution dimension; at package
// initialisation (no call is running) they come from the process-level VERIF_SIM_ENV value, so that what a package
// remembers about its machine at init time can differ between two worker processes.

// from VERIF_SIM_ENV (absent or 0 = the canonical environment); read when this package is initialised, i.e. before
// any package of the library (they all import it)
var procEnv = func() uint64 {
	v, _ := strconv.ParseUint(os.Getenv("VERIF_SIM_ENV"), 10, 64)
	return v
}()

func envSeed() (uint64, bool) {
	if t := cur; t != nil {
		g := t.G
		g.EnvReads++
		switch g.cfg.Adv {
		case "", "identity", "overrides":
			return 0, true
		case "reverse":
			return 1, true
		}
		return Mix(g.cfg.AdvSeed, 77) | 2, true
	}
	return procEnv, true
}

func NumCPU() int {
	s, _ := envSeed()
	switch s {
	case 0:
		return 8
	case 1:
		return 1
	}
	return []int{1, 2, 3, 4, 16, 64, 192}[Mix(s, 1)%7]
}

func GOMAXPROCS(n int) int { return NumCPU() }

func NumGoroutine() int {
	if sched != nil {
		return 1 + sched.liveCount()
	}
	return 1
}

func Getpid() int {
	s, _ := envSeed()
	if s == 0 {
		return 4242
	}
	return 2 + int(Mix(s, 2)%60000)
}

func Hostname() (string, error) {
	s, _ := envSeed()
	if s == 0 {
		return "sim", nil
	}
	return "host-" + string(rune('a'+Mix(s, 3)%26)), nil
}

func Getenv(k string) string {
	v, _ := LookupEnv(k)
	return v
}

func LookupEnv(k string) (string, bool) {
	s, _ := envSeed()
	if s == 0 {
		return "", false
	}
	h := Mix(s, uint64(len(k))*131)
	for i := 0; i < len(k); i++ {
		h = Mix(h, uint64(k[i]))
	}
	switch h % 6 {
	case 0:
		return "", false
	case 1:
		return "", true
	case 2:
		return "1", true
	case 3:
		return "0", true
	case 4:
		return "true", true
	}
	return "x", true
}

// ReflectMapKeys replaces reflect.Value.MapKeys: the order of the returned keys is the runtime's map order.
func ReflectMapKeys(site int, v reflect.Value) []reflect.Value {
	keys := v.MapKeys()
	t := cur
	if t == nil {
		return keys
	}
	g := t.G
	if len(keys) > 1 {
		g.unknownInSnapshot = 0
		sk := make([]sortKey, len(keys))
		idx := make([]int, len(keys))
		for i := range keys {
			sk[i] = g.keyOf(keys[i], site)
			idx[i] = i
		}
		sort.SliceStable(idx, func(a, b int) bool { return cmpKey(&sk[idx[a]], &sk[idx[b]]) < 0 })
		sorted := make([]reflect.Value, len(keys))
		for i, j := range idx {
			sorted[i] = keys[j]
		}
		keys = sorted
	}
	if perm := g.choosePerm(site, len(keys)); perm != nil {
		out := make([]reflect.Value, len(keys))
		for i := range keys {
			out[i] = keys[perm[i]]
		}
		keys = out
	}
	return keys
}
