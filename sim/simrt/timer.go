package simrt

import (
	"context"
	"math"
	"sync"
	"time"
)

// Timers, tickers, sleeps and context deadlines of the library run on the simulated clock: a timer fires when the
// simulated time of its call (group) reaches its instant - checked at every tick - or, when no task can run, the clock
// jumps to the earliest pending timer (discrete-event time: a minute-long timeout costs nothing). Whether a deadline
// cuts a computation short therefore depends only on the run spec (clock origin and rate), never on the real machine.

type simTimer struct {
	g      *Group
	at     int64
	seq    uint64
	active bool
	period int64
	fire   func(now int64)
}

// TimerStats counts simulated timer activity (evidence).
var TimerStats struct{ Created, Fired, Jumps, CtxExpired int }

func (g *Group) addTimer(d time.Duration, period int64, fire func(now int64)) *simTimer {
	g.timerSeq++
	tm := &simTimer{g: g, at: g.nowNs() + int64(d), seq: g.timerSeq, active: true, period: period, fire: fire}
	g.timers = append(g.timers, tm)
	TimerStats.Created++
	g.ev(12<<40, uint64(d))
	g.recomputeNext()
	return tm
}

func (g *Group) recomputeNext() {
	g.nextTimerAt = math.MaxInt64
	g.hasTimers = false
	live := g.timers[:0]
	for _, tm := range g.timers {
		if !tm.active {
			continue
		}
		live = append(live, tm)
		g.hasTimers = true
		if tm.at < g.nextTimerAt {
			g.nextTimerAt = tm.at
		}
	}
	for i := len(live); i < len(g.timers); i++ {
		g.timers[i] = nil
	}
	g.timers = live
}

// fireDue fires every timer whose instant has been reached, in (instant, creation) order.
func (g *Group) fireDue(now int64) {
	for n := 0; n < 1<<16; n++ {
		var best *simTimer
		for _, tm := range g.timers {
			if tm.active && tm.at <= now && (best == nil || tm.at < best.at || (tm.at == best.at && tm.seq < best.seq)) {
				best = tm
			}
		}
		if best == nil {
			break
		}
		if best.period > 0 {
			best.at += best.period
			if best.at <= now { // a ticker never queues more than one tick
				best.at = now + best.period
			}
		} else {
			best.active = false
		}
		TimerStats.Fired++
		g.TimersFired++
		g.ev(13<<40, best.seq)
		best.fire(now)
	}
	g.recomputeNext()
}

// jumpToNextTimer is called by the scheduler when no task can run: the clock of the group with the earliest pending
// timer jumps to that timer's instant.
func (s *Sched) jumpToNextTimer() bool { return s.jumpTimer(false) }

// jumpTimer(true) also looks at the timers of calls whose tasks have all finished: a timer that a call leaves behind
// fires after the call has ended, and what it does then (deliver an event, touch shared state) must be seen.
func (s *Sched) jumpTimer(finishedToo bool) bool {
	var best *simTimer
	seen := map[*Group]bool{}
	for _, t := range s.tasks {
		if (t.done && !finishedToo) || seen[t.G] {
			continue
		}
		seen[t.G] = true
		for _, tm := range t.G.timers {
			if tm.active && (best == nil || tm.at < best.at) {
				best = tm
			}
		}
	}
	if best == nil {
		return false
	}
	g := best.g
	if now := g.nowNs(); best.at > now {
		g.clockExtra += best.at - now
	}
	TimerStats.Jumps++
	g.fireDue(g.nowNs())
	s.wakeAll()
	return true
}

func wake() {
	if sched != nil {
		sched.wakeAll()
	}
}

func Sleep(d time.Duration) {
	t := cur
	if t == nil {
		time.Sleep(d)
		return
	}
	if sched == nil || d <= 0 {
		if d > 0 {
			t.G.clockExtra += int64(d)
		}
		return
	}
	fired := false
	t.G.addTimer(d, 0, func(int64) { fired = true })
	sched.block(t, func() bool { return fired })
}

func After(d time.Duration) <-chan time.Time {
	t := cur
	if t == nil {
		return time.After(d)
	}
	ch := make(chan time.Time, 1)
	t.G.addTimer(d, 0, func(now int64) {
		select {
		case ch <- time.Unix(0, now):
		default:
		}
		wake()
	})
	return ch
}

var (
	timerMu  sync.Mutex
	timerReg = map[*time.Timer]*simTimer{}
	tickReg  = map[*time.Ticker]*simTimer{}
)

func NewTimer(d time.Duration) *time.Timer {
	t := cur
	if t == nil {
		return time.NewTimer(d)
	}
	ch := make(chan time.Time, 1)
	T := &time.Timer{C: ch}
	timerReg[T] = t.G.addTimer(d, 0, func(now int64) {
		select {
		case ch <- time.Unix(0, now):
		default:
		}
		wake()
	})
	return T
}

func AfterFunc(d time.Duration, f func()) *time.Timer {
	t := cur
	if t == nil || sched == nil {
		return time.AfterFunc(d, f)
	}
	g := t.G
	T := &time.Timer{}
	timerReg[T] = g.addTimer(d, 0, func(int64) {
		if sched != nil {
			sched.newTask(g, f, nil)
		}
	})
	return T
}

func TimerStop(T *time.Timer) bool {
	tm := timerReg[T]
	if tm == nil {
		return T.Stop()
	}
	was := tm.active
	tm.active = false
	tm.g.recomputeNext()
	return was
}

func TimerReset(T *time.Timer, d time.Duration) bool {
	tm := timerReg[T]
	if tm == nil {
		return T.Reset(d)
	}
	was := tm.active
	tm.at = tm.g.nowNs() + int64(d)
	if !tm.active {
		tm.active = true
		tm.g.timers = append(tm.g.timers, tm)
	}
	tm.g.recomputeNext()
	return was
}

func NewTicker(d time.Duration) *time.Ticker {
	t := cur
	if t == nil {
		return time.NewTicker(d)
	}
	if d <= 0 {
		panic("non-positive interval for NewTicker")
	}
	ch := make(chan time.Time, 1)
	T := &time.Ticker{C: ch}
	tickReg[T] = t.G.addTimer(d, int64(d), func(now int64) {
		select {
		case ch <- time.Unix(0, now):
		default:
		}
		wake()
	})
	return T
}

func TimeTick(d time.Duration) <-chan time.Time {
	if cur == nil {
		return time.Tick(d)
	}
	if d <= 0 {
		return nil
	}
	return NewTicker(d).C
}

func TickerStop(T *time.Ticker) {
	tm := tickReg[T]
	if tm == nil {
		T.Stop()
		return
	}
	tm.active = false
	tm.g.recomputeNext()
}

func TickerReset(T *time.Ticker, d time.Duration) {
	tm := tickReg[T]
	if tm == nil {
		T.Reset(d)
		return
	}
	tm.at = tm.g.nowNs() + int64(d)
	tm.period = int64(d)
	if !tm.active {
		tm.active = true
		tm.g.timers = append(tm.g.timers, tm)
	}
	tm.g.recomputeNext()
}

// ---------------------------------------------------------------------------------------------
// contexts with a deadline (and cancellable contexts, so that closing their Done channel is a simulator event)

type simCtx struct {
	parent   context.Context
	g        *Group
	done     chan struct{}
	err      error
	deadline int64
	hasDl    bool
	tm       *simTimer
	children []*simCtx
}

func (c *simCtx) Deadline() (time.Time, bool) {
	if c.hasDl {
		if pd, ok := c.parent.Deadline(); ok && pd.UnixNano() < c.deadline {
			return pd, true
		}
		return time.Unix(0, c.deadline), true
	}
	return c.parent.Deadline()
}
func (c *simCtx) Done() <-chan struct{} { return c.done }
func (c *simCtx) Value(k any) any       { return c.parent.Value(k) }
func (c *simCtx) Err() error {
	c.poll()
	return c.err
}

func (c *simCtx) poll() {
	if c.err != nil {
		return
	}
	if perr := c.parent.Err(); perr != nil {
		c.cancel(perr)
		return
	}
	if c.hasDl {
		if c.g.cfg.ClockPerRead {
			c.g.ClockReads++ // looking at a deadline is looking at the clock
		}
		if c.g.nowNs() >= c.deadline {
			TimerStats.CtxExpired++
			c.cancel(context.DeadlineExceeded)
		}
	}
}

func (c *simCtx) cancel(err error) {
	if c.err != nil {
		return
	}
	c.err = err
	c.g.ev(14<<40, uint64(len(err.Error())))
	closeSimChan(c.done)
	if c.tm != nil && c.tm.active {
		c.tm.active = false
		c.g.recomputeNext()
	}
	for _, ch := range c.children {
		ch.cancel(err)
	}
}

func newSimCtx(parent context.Context, g *Group) *simCtx {
	c := &simCtx{parent: parent, g: g, done: make(chan struct{})}
	if p, ok := parent.(*simCtx); ok {
		p.children = append(p.children, c)
		if p.err != nil {
			c.cancel(p.err)
		}
	}
	return c
}

func CtxWithCancel(parent context.Context) (context.Context, context.CancelFunc) {
	t := cur
	if t == nil {
		return context.WithCancel(parent)
	}
	c := newSimCtx(parent, t.G)
	return c, func() { c.cancel(context.Canceled) }
}

func CtxWithDeadline(parent context.Context, d time.Time) (context.Context, context.CancelFunc) {
	t := cur
	if t == nil {
		return context.WithDeadline(parent, d)
	}
	c := newSimCtx(parent, t.G)
	c.hasDl, c.deadline = true, d.UnixNano()
	if c.err == nil {
		c.tm = t.G.addTimer(time.Duration(c.deadline-t.G.nowNs()), 0, func(int64) {
			TimerStats.CtxExpired++
			c.cancel(context.DeadlineExceeded)
		})
	}
	return c, func() { c.cancel(context.Canceled) }
}

func CtxWithTimeout(parent context.Context, d time.Duration) (context.Context, context.CancelFunc) {
	t := cur
	if t == nil {
		return context.WithTimeout(parent, d)
	}
	return CtxWithDeadline(parent, time.Unix(0, t.G.nowNs()+int64(d)))
}

// closeSimChan closes a channel that the simulator itself owns (timer / context plumbing), as a simulator event.
func closeSimChan(ch chan struct{}) {
	st := chanOf(ch)
	if st.closed {
		return
	}
	st.closed = true
	if t := cur; t != nil {
		joinInto(&st.vc, t.vc)
	}
	close(ch)
	wake()
}
