// Package simrt is the simulator runtime linked into the instrumented scratch copy of autog.
// Every choice the library would otherwise leave to the Go runtime or the environment (map
// iteration order, the clock, math/rand globals, which caller goroutine runs next) is decided
// here from the run specification. Stdlib only.
//
// Exactly one goroutine executes library code at any time (cooperative scheduling), so the
// package-level "cur" pointer needs no synchronisation: hand-offs go through channels.
package simrt

import (
	"fmt"
	"iter"
	"reflect"
	"runtime"
	"sort"
	"time"
	"unsafe"
)

// access kinds (mirrors the instrumenter)
const (
	KR  = 0
	KW  = 1
	KRT = 2
	KWT = 3
	KU  = 4
)

var KindName = []string{"R", "W", "RT", "WT", "U"}

// Override of one map-range execution (resolved form).
type Override struct {
	Site int
	Occ  int // -1 = every
	Kind string
	Arg  int
	Perm []int
}

// GroupCfg configures the simulator-owned choices of one Layout call.
type GroupCfg struct {
	Adv         string // identity | reverse | rotate | seeded | overrides
	AdvSeed     uint64
	Overrides   []Override
	T0          int64
	Rate        int64 // ns per tick; 0 = 1000
	ClockPerRead bool // the clock advances by a fixed step per read instead of per tick (what the call observes does not depend on how much work it did)
	Entropy     uint64
	TickBudget  uint64
	DepthBudget int
	FrameBudget uint64 // loop iterations within one function activation
	ByteBudget  uint64
	PanicAtTick uint64
	RecordPerms bool
	NSites      int
}

type AppliedPerm struct {
	Site, Occ, N int
	Perm         []int
}

// Group is the execution context of one Layout call: its choice streams, its allocation
// registry, its simulated time. Tasks spawned by the call (go statements) share it.
type Group struct {
	ID  int
	cfg GroupCfg

	adv rng
	ent rng

	allocSeq  map[unsafe.Pointer]uint64
	nextAlloc uint64
	unknownInSnapshot int

	Ticks      uint64
	MaxDepth   int
	DeepFn     int
	MaxFrame   uint64 // largest number of loop iterations executed by a single function activation
	MaxFrameFn int
	ClockReads int
	ClockHash  uint64 // rolling hash of every clock value handed to the call
	RandDraws  int
	NTasks     int // goroutines of this call, the caller included
	ChildPanic any // first panic raised in a goroutine started by the call (process-fatal in real Go)
	ChildStack []byte
	clockExtra int64

	timers      []*simTimer
	nextTimerAt int64
	hasTimers   bool
	timerSeq    uint64
	TimersFired int
	EnvReads    int

	SiteExec  []int32 // executions per site
	SiteExec2 []int32 // executions with >=2 keys
	SitePerm  []int32 // non-identity permutations applied
	PermKinds map[string]int
	Perms     []AppliedPerm

	ovAt map[[2]int]*Override

	trace  uint64
	Events uint64

	heap0     uint64
	live0     uint64
	PeakBytes uint64

	aborted   bool // a budget was exceeded: further ticks of sibling tasks abort too
	abort     any
	abortTask *Task
	faultFired bool
	abortAt   uint64
}

// Task is one simulated goroutine.
type Task struct {
	ID    int
	G     *Group
	depth int
	frames []frame
	vc    []uint64
	resume chan struct{}
	done   bool
	blocked bool
	body   func()
	prio   int
	Root   bool
	// result of the goroutine: nil = returned normally
	Panic     any
	PanicStack []byte
	Goexit    bool
	Finished  bool // body returned normally
	LiveOthersAtEnd int
	sels []*selState // select statements being evaluated (innermost last)
	ats  []atEntry   // atomic operations whose end has not been marked yet
	spin int         // consecutive scheduling points of kinds that busy-waiting loops are made of
	adopted bool     // started by an earlier run of the process
}

var cur *Task

type frame struct {
	fn int
	n  uint64
}

// Cur returns the running task (nil outside any simulated run).
func Cur() *Task { return cur }

// ---------------------------------------------------------------------------------------------
// distinguished panics

type BudgetExceeded struct {
	Kind string // loop | depth | ticks | bytes
	Fn   string
}

func (b BudgetExceeded) Error() string { return "simrt: budget exceeded: " + b.Kind + " in " + b.Fn }

type InjectedPanic struct{ Tick uint64 }

func (p InjectedPanic) Error() string { return fmt.Sprintf("simrt: injected panic at tick %d", p.Tick) }

type HarnessError struct{ Msg string }

func (h HarnessError) Error() string { return "simrt: harness error: " + h.Msg }

type Deadlock struct{ Msg string }

func (d Deadlock) Error() string { return "simrt: deadlock: " + d.Msg }

// ---------------------------------------------------------------------------------------------
// tables (names only; correctness never depends on them)

var (
	NoFaultFn []bool // indexed by function id: no tick-fault is injected while such a function is the innermost activation
	NoEntryFault []bool // indexed by function id: the function's first statement is a defer; its entry tick is no fault point
	FuncNames []string
	SiteNames []string
	TickNames []string
	VarNames  []string
	AccPos    []string
)

func fnName(id int) string {
	if id >= 0 && id < len(FuncNames) {
		return FuncNames[id]
	}
	return fmt.Sprintf("fn#%d", id)
}

func SiteName(id int) string {
	if id >= 0 && id < len(SiteNames) {
		return SiteNames[id]
	}
	return fmt.Sprintf("site#%d", id)
}

// ---------------------------------------------------------------------------------------------
// rng: splitmix64

type rng struct{ s uint64 }

func (r *rng) next() uint64 {
	r.s += 0x9e3779b97f4a7c15
	z := r.s
	z = (z ^ (z >> 30)) * 0xbf58476d1ce4e5b9
	z = (z ^ (z >> 27)) * 0x94d049bb133111eb
	return z ^ (z >> 31)
}

func (r *rng) intn(n int) int {
	if n <= 1 {
		return 0
	}
	return int(r.next() % uint64(n))
}

// Mix derives an independent seed from a seed and a stream label.
func Mix(seed uint64, label uint64) uint64 {
	r := rng{s: seed ^ (label * 0xd6e8feb86659fd93)}
	r.next()
	return r.next()
}

// ---------------------------------------------------------------------------------------------

func NewGroup(id int, cfg GroupCfg) *Group {
	g := &Group{ID: id, cfg: cfg}
	g.adv = rng{s: Mix(cfg.AdvSeed, 1)}
	g.ent = rng{s: Mix(cfg.Entropy, 2)}
	g.allocSeq = make(map[unsafe.Pointer]uint64, 256)
	g.SiteExec = make([]int32, cfg.NSites)
	g.SiteExec2 = make([]int32, cfg.NSites)
	g.SitePerm = make([]int32, cfg.NSites)
	g.PermKinds = map[string]int{}
	g.trace = 0xcbf29ce484222325
	if len(cfg.Overrides) > 0 {
		g.ovAt = map[[2]int]*Override{}
		for i := range cfg.Overrides {
			o := &cfg.Overrides[i]
			g.ovAt[[2]int{o.Site, o.Occ}] = o
		}
	}
	var ms runtime.MemStats
	runtime.ReadMemStats(&ms)
	g.heap0 = ms.TotalAlloc
	g.live0 = ms.HeapAlloc
	return g
}

func (g *Group) ev(a, b uint64) {
	g.Events++
	g.trace = (g.trace ^ a) * 0x100000001b3
	g.trace = (g.trace ^ b) * 0x100000001b3
}

// Trace returns the rolling hash over every simulator event of this group.
func (g *Group) Trace() uint64 { return g.trace }

// Note mixes a harness-level event (e.g. a Monitor.Log delivery) into the trace.
func (g *Group) Note(a, b uint64) { g.ev(0x4e4f5445^a, b) }

// ---------------------------------------------------------------------------------------------
// R6: function entry / exit, loop ticks

func Enter(fn int) {
	t := cur
	if t == nil {
		return
	}
	t.depth++
	t.frames = append(t.frames, frame{fn: fn})
	g := t.G
	if t.depth > g.MaxDepth {
		g.MaxDepth = t.depth
		g.DeepFn = fn
	}
	if t.depth > g.cfg.DepthBudget && g.cfg.DepthBudget > 0 && !g.aborted {
		g.fail(BudgetExceeded{Kind: "depth", Fn: t.commonestFrame()})
	}
	g.tick(t, uint64(fn)|1<<40, fn, true)
}

func Leave() {
	if t := cur; t != nil {
		t.depth--
		if n := len(t.frames); n > 0 {
			t.frames = t.frames[:n-1]
		}
	}
}

func Tick(site int) {
	t := cur
	if t == nil {
		return
	}
	g := t.G
	if n := len(t.frames); n > 0 {
		f := &t.frames[n-1]
		f.n++
		if f.n > g.MaxFrame {
			g.MaxFrame = f.n
			g.MaxFrameFn = f.fn
		}
		if f.n > g.cfg.FrameBudget && g.cfg.FrameBudget > 0 && !g.aborted {
			g.fail(BudgetExceeded{Kind: "loop", Fn: fnName(f.fn)})
		}
	}
	g.tick(t, uint64(site)|2<<40, site, false)
}

// busiestFrame names the live function activation that has executed the most loop iterations: when the total
// budget runs out, that is the loop that does not end (the innermost function at that instant is arbitrary).
func (t *Task) busiestFrame() string {
	best := -1
	var n uint64
	for i := range t.frames {
		if t.frames[i].n > n {
			n = t.frames[i].n
			best = i
		}
	}
	if best < 0 {
		if len(t.frames) > 0 {
			return fnName(t.frames[len(t.frames)-1].fn)
		}
		return "?"
	}
	return fnName(t.frames[best].fn)
}

// commonestFrame names the function with the most live activations: the one that recurses.
func (t *Task) commonestFrame() string {
	cnt := map[int]int{}
	best, bn := -1, 0
	for i := range t.frames {
		f := t.frames[i].fn
		cnt[f]++
		if cnt[f] > bn || (cnt[f] == bn && f < best) {
			best, bn = f, cnt[f]
		}
	}
	if best < 0 {
		return "?"
	}
	return fnName(best)
}

func (g *Group) fail(v any) {
	g.aborted = true
	g.abort = v
	g.abortTask = cur
	g.abortAt = g.Ticks
	panic(v)
}

func (g *Group) tick(t *Task, code uint64, id int, isFn bool) {
	g.Ticks++
	g.trace = (g.trace ^ code) * 0x100000001b3
	if g.aborted {
		// sibling tasks of the call stop at their next tick; the task that hit the budget is unwinding
		// and may run deferred functions (they tick too), which are allowed a bounded extra amount
		if t != g.abortTask || g.Ticks > g.abortAt+1_000_000 {
			panic(g.abort)
		}
		return
	}
	if g.cfg.PanicAtTick > 0 && !g.faultFired && g.Ticks >= g.cfg.PanicAtTick {
		// first eligible tick at or after the requested one. Ticks inside the functions listed in NoFaultFn
		// (the monitor package: the very clean-up mechanism C18 is about) are not eligible: a panic there
		// does not stand for "an internal panic of the pipeline".
		fn := id
		if !isFn {
			fn = -1
			if n := len(t.frames); n > 0 {
				fn = t.frames[n-1].fn
			}
		}
		if isFn && fn >= 0 && fn < len(NoEntryFault) && NoEntryFault[fn] {
			// the rewrite puts the entry tick before the function's leading defer statement; real code cannot fail there
		} else if !(fn >= 0 && fn < len(NoFaultFn) && NoFaultFn[fn]) {
			g.faultFired = true
			panic(InjectedPanic{Tick: g.Ticks})
		}
	}
	if g.Ticks > g.cfg.TickBudget && g.cfg.TickBudget > 0 {
		g.fail(BudgetExceeded{Kind: "ticks", Fn: t.busiestFrame()})
	}
	if g.hasTimers {
		if now := g.nowNs(); now >= g.nextTimerAt {
			g.fireDue(now)
		}
	}
	if g.Ticks&0x3fff == 0 && g.cfg.ByteBudget > 0 {
		var ms runtime.MemStats
		runtime.ReadMemStats(&ms)
		var live uint64 // growth of the live heap since the call started
		if ms.HeapAlloc > g.live0 {
			live = ms.HeapAlloc - g.live0
		}
		if live > g.PeakBytes {
			g.PeakBytes = live
		}
		if live > g.cfg.ByteBudget && !g.aborted {
			g.fail(BudgetExceeded{Kind: "bytes", Fn: t.busiestFrame()})
		}
	}
	if sched != nil {
		if isFn {
			sched.maybeYieldAtEntry(t)
		} else {
			sched.maybeYieldAtLoop(t)
		}
	}
}

// ---------------------------------------------------------------------------------------------
// R3: allocation registry

func Reg[T any](p *T) *T {
	t := cur
	if t == nil {
		return p
	}
	g := t.G
	if _, known := g.allocSeq[unsafe.Pointer(p)]; !known {
		g.nextAlloc++
		g.allocSeq[unsafe.Pointer(p)] = g.nextAlloc
	}
	return p
}

// ---------------------------------------------------------------------------------------------
// R1: owned map iteration order

type sortKey struct {
	class int
	u     uint64
	f     float64
	s     string
	sub   []sortKey
}

func cmpKey(a, b *sortKey) int {
	if a.class != b.class {
		if a.class < b.class {
			return -1
		}
		return 1
	}
	switch a.class {
	case 1:
		if a.u != b.u {
			if a.u < b.u {
				return -1
			}
			return 1
		}
	case 2:
		if a.f != b.f {
			if a.f < b.f {
				return -1
			}
			return 1
		}
	case 3:
		if a.s != b.s {
			if a.s < b.s {
				return -1
			}
			return 1
		}
	case 4:
		for i := 0; i < len(a.sub) && i < len(b.sub); i++ {
			if c := cmpKey(&a.sub[i], &b.sub[i]); c != 0 {
				return c
			}
		}
		if len(a.sub) != len(b.sub) {
			if len(a.sub) < len(b.sub) {
				return -1
			}
			return 1
		}
	}
	return 0
}

func (g *Group) keyOf(v reflect.Value, site int) sortKey {
	switch v.Kind() {
	case reflect.Bool:
		if v.Bool() {
			return sortKey{class: 1, u: 1}
		}
		return sortKey{class: 1}
	case reflect.Int, reflect.Int8, reflect.Int16, reflect.Int32, reflect.Int64:
		return sortKey{class: 1, u: uint64(v.Int()) ^ (1 << 63)}
	case reflect.Uint, reflect.Uint8, reflect.Uint16, reflect.Uint32, reflect.Uint64, reflect.Uintptr:
		return sortKey{class: 1, u: v.Uint()}
	case reflect.Float32, reflect.Float64:
		return sortKey{class: 2, f: v.Float()}
	case reflect.Complex64, reflect.Complex128:
		c := v.Complex()
		return sortKey{class: 4, sub: []sortKey{{class: 2, f: real(c)}, {class: 2, f: imag(c)}}}
	case reflect.String:
		return sortKey{class: 3, s: v.String()}
	case reflect.Pointer, reflect.UnsafePointer, reflect.Chan:
		if v.IsNil() {
			return sortKey{class: 0}
		}
		p := v.UnsafePointer()
		seq, ok := g.allocSeq[p]
		if !ok {
			// a pointer that was not created in module code (e.g. returned by the standard library). One such key per
			// snapshot can still be numbered deterministically (it is registered now); two or more cannot, because the
			// order in which this snapshot met them is the runtime's map order.
			if g.unknownInSnapshot > 0 {
				panic(HarnessError{Msg: fmt.Sprintf("two map keys of type %s at range site %s were not created by module code; cannot give them a canonical order", v.Type(), SiteName(site))})
			}
			g.unknownInSnapshot++
			g.nextAlloc++
			seq = g.nextAlloc
			g.allocSeq[p] = seq
		}
		return sortKey{class: 1, u: seq}
	case reflect.Struct:
		k := sortKey{class: 4}
		for i := 0; i < v.NumField(); i++ {
			k.sub = append(k.sub, g.keyOf(v.Field(i), site))
		}
		return k
	case reflect.Array:
		k := sortKey{class: 4}
		for i := 0; i < v.Len(); i++ {
			k.sub = append(k.sub, g.keyOf(v.Index(i), site))
		}
		return k
	case reflect.Interface:
		if v.IsNil() {
			return sortKey{class: 0}
		}
		e := v.Elem()
		return sortKey{class: 4, sub: []sortKey{{class: 3, s: e.Type().String()}, g.keyOf(e, site)}}
	}
	panic(HarnessError{Msg: fmt.Sprintf("map key kind %s at range site %s is not orderable", v.Kind(), SiteName(site))})
}

func snapshot[M ~map[K]V, K comparable, V any](site int, m M) ([]K, []int) {
	t := cur
	g := t.G
	keys := make([]K, 0, len(m))
	for k := range m {
		keys = append(keys, k)
	}
	if len(keys) > 1 {
		g.unknownInSnapshot = 0
		sk := make([]sortKey, len(keys))
		idx := make([]int, len(keys))
		for i := range keys {
			sk[i] = g.keyOf(reflect.ValueOf(&keys[i]).Elem(), site)
			idx[i] = i
		}
		sort.SliceStable(idx, func(a, b int) bool { return cmpKey(&sk[idx[a]], &sk[idx[b]]) < 0 })
		sorted := make([]K, len(keys))
		for i, j := range idx {
			sorted[i] = keys[j]
		}
		keys = sorted
	}
	perm := g.choosePerm(site, len(keys))
	return keys, perm
}

// Ordered replaces "range m": the simulator, not the runtime, picks the iteration order.
// Keys are snapshotted when the range expression is evaluated; an entry deleted before it is
// reached is skipped; entries inserted during the loop are not produced. Both are behaviours
// the Go specification allows.
func Ordered[M ~map[K]V, K comparable, V any](site int, m M) iter.Seq2[K, V] {
	if cur == nil {
		return func(yield func(K, V) bool) {
			for k, v := range m {
				if !yield(k, v) {
					return
				}
			}
		}
	}
	keys, perm := snapshot(site, m)
	return func(yield func(K, V) bool) {
		for i := range keys {
			j := i
			if perm != nil {
				j = perm[i]
			}
			k := keys[j]
			v, ok := m[k]
			if !ok {
				continue
			}
			if !yield(k, v) {
				return
			}
		}
	}
}

func MapsAll[M ~map[K]V, K comparable, V any](site int, m M) iter.Seq2[K, V] {
	return Ordered(site, m)
}

func MapsKeys[M ~map[K]V, K comparable, V any](site int, m M) iter.Seq[K] {
	return func(yield func(K) bool) {
		for k := range Ordered(site, m) {
			if !yield(k) {
				return
			}
		}
	}
}

func MapsValues[M ~map[K]V, K comparable, V any](site int, m M) iter.Seq[V] {
	return func(yield func(V) bool) {
		for _, v := range Ordered(site, m) {
			if !yield(v) {
				return
			}
		}
	}
}

func identity(n int) []int {
	p := make([]int, n)
	for i := range p {
		p[i] = i
	}
	return p
}

func isIdentity(p []int) bool {
	for i, v := range p {
		if i != v {
			return false
		}
	}
	return true
}

func makePerm(kind string, arg int, explicit []int, n int, r *rng) []int {
	p := identity(n)
	switch kind {
	case "reverse":
		for i, j := 0, n-1; i < j; i, j = i+1, j-1 {
			p[i], p[j] = p[j], p[i]
		}
	case "rotate":
		k := arg % n
		if k < 0 {
			k += n
		}
		for i := range p {
			p[i] = (i + k) % n
		}
	case "swap":
		i := arg % (n - 1)
		if i < 0 {
			i += n - 1
		}
		p[i], p[i+1] = p[i+1], p[i]
	case "perm":
		if len(explicit) == n {
			seen := make([]bool, n)
			ok := true
			for _, v := range explicit {
				if v < 0 || v >= n || seen[v] {
					ok = false
					break
				}
				seen[v] = true
			}
			if ok {
				copy(p, explicit)
			}
		}
	case "shuffle":
		for i := n - 1; i > 0; i-- {
			j := r.intn(i + 1)
			p[i], p[j] = p[j], p[i]
		}
	}
	return p
}

func (g *Group) choosePerm(site, n int) []int {
	if site >= len(g.SiteExec) {
		grow := site + 1 - len(g.SiteExec)
		g.SiteExec = append(g.SiteExec, make([]int32, grow)...)
		g.SiteExec2 = append(g.SiteExec2, make([]int32, grow)...)
		g.SitePerm = append(g.SitePerm, make([]int32, grow)...)
	}
	occ := int(g.SiteExec[site])
	g.SiteExec[site]++
	if n < 2 {
		g.ev(uint64(site)|3<<40, uint64(n))
		return nil
	}
	g.SiteExec2[site]++
	var p []int
	kind := "identity"
	switch g.cfg.Adv {
	case "reverse":
		kind = "reverse"
		p = makePerm("reverse", 0, nil, n, nil)
	case "rotate":
		kind = "rotate"
		p = makePerm("rotate", 1+g.adv.intn(n-1), nil, n, nil)
	case "seeded":
		switch d := g.adv.intn(100); {
		case d < 20:
		case d < 40:
			kind = "reverse"
			p = makePerm("reverse", 0, nil, n, nil)
		case d < 65:
			kind = "rotate"
			p = makePerm("rotate", 1+g.adv.intn(n-1), nil, n, nil)
		case d < 80:
			kind = "swap"
			p = makePerm("swap", g.adv.intn(n-1), nil, n, nil)
		default:
			kind = "shuffle"
			p = makePerm("shuffle", 0, nil, n, &g.adv)
		}
	case "overrides":
		o := g.ovAt[[2]int{site, occ}]
		if o == nil {
			o = g.ovAt[[2]int{site, -1}]
		}
		if o != nil {
			kind = o.Kind
			p = makePerm(o.Kind, o.Arg, o.Perm, n, nil)
		}
	}
	if p != nil && isIdentity(p) {
		p = nil
		kind = "identity"
	}
	g.PermKinds[kind]++
	var ph uint64 = 0
	if p != nil {
		g.SitePerm[site]++
		for _, v := range p {
			ph = ph*31 + uint64(v) + 1
		}
		if g.cfg.RecordPerms && len(g.Perms) < 1<<14 {
			g.Perms = append(g.Perms, AppliedPerm{Site: site, Occ: occ, N: n, Perm: append([]int(nil), p...)})
		}
	}
	g.ev(uint64(site)|3<<40|uint64(n)<<44, ph)
	return p
}

// ---------------------------------------------------------------------------------------------
// R9: pointer-to-integer conversion. The numeric order of the addresses of distinct allocations is unspecified
// (and changes from run to run with GC and allocator state): the simulator hands out injective fake addresses,
// ascending by first use under the identity resolution, descending under "reverse", scrambled when seeded.

func Addr(p unsafe.Pointer) uintptr {
	t := cur
	if t == nil || p == nil {
		return uintptr(p)
	}
	g := t.G
	seq, ok := g.allocSeq[p]
	if !ok {
		g.nextAlloc++
		seq = g.nextAlloc
		g.allocSeq[p] = seq
	}
	g.ev(9<<40, seq)
	switch g.cfg.Adv {
	case "", "identity", "overrides":
		return uintptr(0xc000000000 + seq*256)
	case "reverse":
		return uintptr(0xc0ff000000 - seq*256)
	}
	odd := (Mix(g.cfg.AdvSeed, 99) | 1) & 0xffffffff
	return uintptr(0xc000000000 + ((seq*odd)&0xffffffff)*256)
}

// ---------------------------------------------------------------------------------------------
// R4: clock and entropy

func (g *Group) nowNs() int64 {
	rate := g.cfg.Rate
	if rate <= 0 {
		rate = 1000
	}
	if g.cfg.ClockPerRead {
		return g.cfg.T0 + int64(g.ClockReads)*1_000_003 + g.clockExtra
	}
	return g.cfg.T0 + int64(g.Ticks)*rate + g.clockExtra
}

func Now() time.Time {
	t := cur
	if t == nil {
		return time.Now()
	}
	t.G.ClockReads++
	ns := t.G.nowNs()
	t.G.ClockHash = (t.G.ClockHash ^ uint64(ns)) * 0x100000001b3
	t.G.ev(4<<40, uint64(ns))
	return time.Unix(0, ns)
}

func Since(t0 time.Time) time.Duration { return Now().Sub(t0) }
func Until(t0 time.Time) time.Duration { return t0.Sub(Now()) }

func draw() uint64 {
	t := cur
	if t == nil {
		// outside a simulated run (package initialisation): fixed stream
		initRng.s++
		return initRng.next()
	}
	t.G.RandDraws++
	v := t.G.ent.next()
	t.G.ev(5<<40, v)
	return v
}

var initRng = rng{s: 0x1234}

func RandUint64() uint64 { return draw() }
func RandUint32() uint32 { return uint32(draw() >> 32) }
func RandUint() uint     { return uint(draw()) }
func RandInt63() int64   { return int64(draw() >> 1) }
func RandInt31() int32   { return int32(draw() >> 33) }
func RandInt() int       { return int(uint(draw()) >> 1) }
func RandInt63n(n int64) int64 {
	if n <= 0 {
		panic("invalid argument to Int63n")
	}
	return int64(draw() % uint64(n))
}
func RandInt31n(n int32) int32 {
	if n <= 0 {
		panic("invalid argument to Int31n")
	}
	return int32(draw() % uint64(n))
}
func RandIntn(n int) int {
	if n <= 0 {
		panic("invalid argument to Intn")
	}
	return int(draw() % uint64(n))
}
func RandUintN(n uint) uint       { return uint(draw() % uint64(n)) }
func RandUint64N(n uint64) uint64 { return draw() % n }
func RandUint32N(n uint32) uint32 { return uint32(draw() % uint64(n)) }
func RandFloat64() float64        { return float64(draw()>>11) / (1 << 53) }
func RandFloat32() float32        { return float32(draw()>>40) / (1 << 24) }
func RandNormFloat64() float64 {
	// sum of uniforms; distribution is irrelevant for the checks, determinism is what matters
	s := 0.0
	for i := 0; i < 12; i++ {
		s += RandFloat64()
	}
	return s - 6
}
func RandExpFloat64() float64 { return RandFloat64() * 3 }
func RandSeed(int64)          {}
func RandPerm(n int) []int {
	p := identity(n)
	for i := n - 1; i > 0; i-- {
		j := RandIntn(i + 1)
		p[i], p[j] = p[j], p[i]
	}
	return p
}
func RandShuffle(n int, swap func(i, j int)) {
	for i := n - 1; i > 0; i-- {
		j := RandIntn(i + 1)
		swap(i, j)
	}
}

// ---------------------------------------------------------------------------------------------

// Bytes reports the bytes allocated since the group started (process-wide TotalAlloc delta).
func (g *Group) Bytes() uint64 {
	var ms runtime.MemStats
	runtime.ReadMemStats(&ms)
	return ms.TotalAlloc - g.heap0
}

// RunSolo runs body as the only task of group g, outside any scheduler, on the calling
// goroutine's behalf but in a goroutine of its own (so that runtime.Goexit can be observed).
func RunSolo(g *Group, body func()) *Task {
	s := NewSched(SchedCfg{Policy: "serial"})
	t := s.AddRoot(g, body)
	s.Run()
	return t
}
