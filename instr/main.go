// Command instrument rewrites a scratch copy of nulab/autog so that every source of
// nondeterminism, every piece of package-level state and every loop / function entry goes
// through the simulator runtime (zzverif/simrt). See /verif/DESIGN.md section 3.1.
//
// It never touches /repo: it is pointed at a copy. All rewrites are insert-only text splices
// placed on the same source line, so line numbers in stack traces stay those of /repo.
package main

import (
	"encoding/json"
	"flag"
	"fmt"
	"go/ast"
	"go/token"
	"go/types"
	"os"
	"path/filepath"
	"sort"
	"strings"

	"golang.org/x/tools/go/packages"
)

const simrtPath = "github.com/nulab/autog/zzverif/simrt"
const simrtName = "zzsimrt"

// access kinds, mirrored in simrt
const (
	kR  = 0 // read of the variable
	kW  = 1 // write of the variable itself
	kRT = 2 // read through an indirection rooted at the variable
	kWT = 3 // write through an indirection rooted at the variable
	kU  = 4 // unknown (address taken, pointer method, passed by reference)
)

var kindName = []string{"R", "W", "RT", "WT", "U"}

type edit struct {
	off    int
	class  int // 0 end-insert, 1 block-insert, 2 start-insert
	extent int
	rank   int
	seq    int
	text   string
	delTo  int // >off: delete [off,delTo) (replacement)
}

type RangeSite struct {
	ID      int    `json:"id"`
	Pos     string `json:"pos"`
	Func    string `json:"func"`
	MapType string `json:"map_type"`
	Via     string `json:"via"` // "range" | "maps.Keys" | ...
}

type VarInfo struct {
	ID   int    `json:"id"`
	Name string `json:"name"`
	Type string `json:"type"`
	Pos  string `json:"pos"`
}

type Access struct {
	Var  int    `json:"var"`
	Name string `json:"name"`
	Kind string `json:"kind"`
	Pos  string `json:"pos"`
	Func string `json:"func"`
}

type PosNote struct {
	Kind string `json:"kind"`
	Pos  string `json:"pos"`
	Func string `json:"func,omitempty"`
}

type Seams struct {
	Module     string      `json:"module"`
	RangeSites []RangeSite `json:"range_sites"`
	Vars       []VarInfo   `json:"vars"`
	Accesses   []Access    `json:"accesses"`
	Clock      []PosNote   `json:"clock_entropy_sites"`
	Sync       []PosNote   `json:"sync_sites"`
	Unowned    []PosNote   `json:"unowned"`
	Funcs      []string    `json:"funcs"`      // index = function id
	TickSites  []string    `json:"tick_sites"` // index = tick site id
	AllocSites int         `json:"alloc_sites"`
	DeferFirst []int       `json:"defer_first"` // ids of functions whose body starts with a defer statement
	Files      int         `json:"files_rewritten"`
	Packages   []string    `json:"packages"`
}

type ctx struct {
	root  string
	fset  *token.FileSet
	seams *Seams
	varID map[*types.Var]int
	seq   int
}

func main() {
	dir := flag.String("dir", "", "root of the scratch copy to rewrite in place")
	out := flag.String("out", "", "where to write seams.json")
	flag.Parse()
	if *dir == "" || *out == "" {
		fmt.Fprintln(os.Stderr, "usage: instrument -dir <scratch copy> -out <seams.json>")
		os.Exit(2)
	}
	root, _ := filepath.Abs(*dir)
	if strings.HasPrefix(root, "/repo") {
		fmt.Fprintln(os.Stderr, "refusing to rewrite /repo")
		os.Exit(2)
	}
	fset := token.NewFileSet()
	cfg := &packages.Config{
		Mode: packages.NeedName | packages.NeedFiles | packages.NeedSyntax | packages.NeedTypes |
			packages.NeedTypesInfo | packages.NeedImports | packages.NeedModule,
		Dir:   root,
		Fset:  fset,
		Tests: false,
		Env:   append(os.Environ(), "GOFLAGS=-mod=mod", "GOPROXY=off", "GOSUMDB=off", "GOTOOLCHAIN=local"),
	}
	pkgs, err := packages.Load(cfg, "./...")
	if err != nil {
		fmt.Fprintln(os.Stderr, "load:", err)
		os.Exit(2)
	}
	sort.Slice(pkgs, func(i, j int) bool { return pkgs[i].PkgPath < pkgs[j].PkgPath })
	bad := false
	for _, p := range pkgs {
		for _, e := range p.Errors {
			fmt.Fprintln(os.Stderr, "package error:", e)
			bad = true
		}
	}
	if bad {
		os.Exit(2)
	}
	c := &ctx{root: root, fset: fset, seams: &Seams{}, varID: map[*types.Var]int{}}
	var mine []*packages.Package
	for _, p := range pkgs {
		if strings.Contains(p.PkgPath, "/zzverif") {
			continue
		}
		if p.Module != nil {
			c.seams.Module = p.Module.Path
		}
		mine = append(mine, p)
		c.seams.Packages = append(c.seams.Packages, p.PkgPath)
	}
	// pass 1: enumerate package-level variables of all instrumented packages
	for _, p := range mine {
		scope := p.Types.Scope()
		names := scope.Names()
		sort.Strings(names)
		for _, name := range names {
			v, ok := scope.Lookup(name).(*types.Var)
			if !ok || name == "_" {
				continue
			}
			id := len(c.seams.Vars)
			c.varID[v] = id
			c.seams.Vars = append(c.seams.Vars, VarInfo{ID: id, Name: shortPkg(p.PkgPath, c.seams.Module) + "." + name,
				Type: types.TypeString(v.Type(), nil), Pos: c.pos(v.Pos())})
		}
	}
	// pass 2: rewrite
	for _, p := range mine {
		for _, f := range p.Syntax {
			fname := fset.Position(f.Pos()).Filename
			if strings.HasSuffix(fname, "_test.go") {
				continue
			}
			src, err := os.ReadFile(fname)
			if err != nil {
				fmt.Fprintln(os.Stderr, err)
				os.Exit(2)
			}
			edits := c.file(p, f)
			if len(edits) == 0 {
				continue
			}
			outb := apply(src, edits)
			if err := os.WriteFile(fname, outb, 0o644); err != nil {
				fmt.Fprintln(os.Stderr, err)
				os.Exit(2)
			}
			c.seams.Files++
		}
	}
	b, _ := json.MarshalIndent(c.seams, "", " ")
	if err := os.WriteFile(*out, b, 0o644); err != nil {
		fmt.Fprintln(os.Stderr, err)
		os.Exit(2)
	}
	fmt.Printf("instrumented %d files: %d range sites, %d vars, %d accesses, %d funcs, %d tick sites, %d alloc sites, %d clock/entropy, %d sync, %d unowned\n",
		c.seams.Files, len(c.seams.RangeSites), len(c.seams.Vars), len(c.seams.Accesses), len(c.seams.Funcs),
		len(c.seams.TickSites), c.seams.AllocSites, len(c.seams.Clock), len(c.seams.Sync), len(c.seams.Unowned))
}

func shortPkg(path, mod string) string {
	s := strings.TrimPrefix(path, mod)
	s = strings.TrimPrefix(s, "/")
	if s == "" {
		return "autog"
	}
	return s
}

func (c *ctx) pos(p token.Pos) string {
	ps := c.fset.Position(p)
	rel, err := filepath.Rel(c.root, ps.Filename)
	if err != nil {
		rel = ps.Filename
	}
	return fmt.Sprintf("%s:%d", rel, ps.Line)
}

func (c *ctx) off(p token.Pos) int { return c.fset.Position(p).Offset }

func apply(src []byte, edits []edit) []byte {
	sort.SliceStable(edits, func(i, j int) bool {
		a, b := edits[i], edits[j]
		if a.off != b.off {
			return a.off < b.off
		}
		if a.class != b.class {
			return a.class < b.class
		}
		switch a.class {
		case 0: // end inserts: inner first
			if a.extent != b.extent {
				return a.extent < b.extent
			}
			if a.rank != b.rank {
				return a.rank < b.rank
			}
		case 2: // start inserts: outer first
			if a.extent != b.extent {
				return a.extent > b.extent
			}
			if a.rank != b.rank {
				return a.rank > b.rank
			}
		}
		return a.seq < b.seq
	})
	var out []byte
	cur := 0
	for _, e := range edits {
		if e.off < cur {
			// inside a deleted range; must not happen
			panic(fmt.Sprintf("overlapping edit at %d", e.off))
		}
		out = append(out, src[cur:e.off]...)
		out = append(out, e.text...)
		cur = e.off
		if e.delTo > e.off {
			cur = e.delTo
		}
	}
	out = append(out, src[cur:]...)
	return out
}

type fileState struct {
	c       *ctx
	p       *packages.Package
	info    *types.Info
	edits   []edit
	stack   []ast.Node
	fnStack []string
	keep    map[string]string // import name -> an exported symbol to keep it used
	inInit  int               // >0 while inside a package-level var initialiser
	litN    map[string]int
	skipCh  map[ast.Node]bool // channel operations that are communication clauses of a select: left as they are
}

func (s *fileState) add(e edit) {
	s.c.seq++
	e.seq = s.c.seq
	s.edits = append(s.edits, e)
}

func (s *fileState) wrap(n ast.Node, prefix, suffix string, rank int) {
	a, b := s.c.off(n.Pos()), s.c.off(n.End())
	s.add(edit{off: a, class: 2, extent: b - a, rank: rank, text: prefix})
	s.add(edit{off: b, class: 0, extent: b - a, rank: rank, text: suffix})
}

func (s *fileState) replace(n ast.Node, text string) {
	a, b := s.c.off(n.Pos()), s.c.off(n.End())
	s.add(edit{off: a, class: 2, extent: b - a, rank: 0, text: text, delTo: b})
}

func (s *fileState) afterBrace(lbrace token.Pos, text string) {
	s.add(edit{off: s.c.off(lbrace) + 1, class: 1, text: text})
}

func (s *fileState) curFunc() string {
	if len(s.fnStack) == 0 {
		return ""
	}
	return s.fnStack[len(s.fnStack)-1]
}

func (c *ctx) file(p *packages.Package, f *ast.File) []edit {
	s := &fileState{c: c, p: p, info: p.TypesInfo, keep: map[string]string{}, litN: map[string]int{}, skipCh: map[ast.Node]bool{}}
	pkgShort := shortPkg(p.PkgPath, c.seams.Module)

	for _, imp := range f.Imports {
		path := strings.Trim(imp.Path.Value, "\"")
		switch path {
		case "unsafe", "reflect", "crypto/rand", "C", "os/signal", "syscall", "net", "net/http", "hash/maphash", "weak", "runtime/debug", "unique":
			c.seams.Unowned = append(c.seams.Unowned, PosNote{Kind: "import " + path, Pos: c.pos(imp.Pos())})
		}
	}

	var visit func(n ast.Node) bool
	visit = func(n ast.Node) bool {
		if n == nil {
			top := s.stack[len(s.stack)-1]
			s.stack = s.stack[:len(s.stack)-1]
			switch t := top.(type) {
			case *ast.FuncDecl:
				if t.Body != nil {
					s.fnStack = s.fnStack[:len(s.fnStack)-1]
				}
			case *ast.FuncLit:
				s.fnStack = s.fnStack[:len(s.fnStack)-1]
			case *ast.GenDecl:
				if t.Tok == token.VAR && len(s.stack) == 1 {
					s.inInit--
				}
			}
			return true
		}
		s.stack = append(s.stack, n)
		switch t := n.(type) {
		case *ast.GenDecl:
			if t.Tok == token.VAR && len(s.stack) == 2 { // [File, GenDecl]
				s.inInit++
			}
		case *ast.FuncDecl:
			if t.Body != nil {
				name := pkgShort + "." + t.Name.Name
				if t.Recv != nil && len(t.Recv.List) > 0 {
					name = pkgShort + "." + recvName(t.Recv.List[0].Type) + "." + t.Name.Name
				}
				s.fnStack = append(s.fnStack, name)
				id := len(c.seams.Funcs)
				c.seams.Funcs = append(c.seams.Funcs, name)
				c.noteDeferFirst(id, t.Body)
				s.afterBrace(t.Body.Lbrace, fmt.Sprintf(" %s.Enter(%d); defer %s.Leave();", simrtName, id, simrtName))
			}
		case *ast.FuncLit:
			parent := s.curFunc()
			if parent == "" {
				parent = pkgShort + ".init"
			}
			s.litN[parent]++
			name := fmt.Sprintf("%s.func%d", parent, s.litN[parent])
			s.fnStack = append(s.fnStack, name)
			id := len(c.seams.Funcs)
			c.seams.Funcs = append(c.seams.Funcs, name)
			c.noteDeferFirst(id, t.Body)
			s.afterBrace(t.Body.Lbrace, fmt.Sprintf(" %s.Enter(%d); defer %s.Leave();", simrtName, id, simrtName))
		case *ast.ForStmt:
			id := len(c.seams.TickSites)
			c.seams.TickSites = append(c.seams.TickSites, c.pos(t.Pos()))
			s.afterBrace(t.Body.Lbrace, fmt.Sprintf(" %s.Tick(%d);", simrtName, id))
		case *ast.LabeledStmt:
			// a label can be the target of a backward goto, i.e. a loop without a for statement
			if _, isLoop := t.Stmt.(*ast.ForStmt); !isLoop {
				if _, isRange := t.Stmt.(*ast.RangeStmt); !isRange {
					if _, isBlock := t.Stmt.(*ast.BlockStmt); !isBlock {
						id := len(c.seams.TickSites)
						c.seams.TickSites = append(c.seams.TickSites, c.pos(t.Pos()))
						s.add(edit{off: c.off(t.Colon) + 1, class: 1, text: fmt.Sprintf(" %s.Tick(%d);", simrtName, id)})
					}
				}
			}
		case *ast.RangeStmt:
			id := len(c.seams.TickSites)
			c.seams.TickSites = append(c.seams.TickSites, c.pos(t.Pos()))
			s.afterBrace(t.Body.Lbrace, fmt.Sprintf(" %s.Tick(%d);", simrtName, id))
			if tv, ok := s.info.Types[t.X]; ok && tv.Type != nil {
				if isMap(tv.Type) {
					sid := len(c.seams.RangeSites)
					c.seams.RangeSites = append(c.seams.RangeSites, RangeSite{ID: sid, Pos: c.pos(t.Pos()), Func: s.curFunc(),
						MapType: types.TypeString(tv.Type, shortQual), Via: "range"})
					s.wrap(t.X, fmt.Sprintf("%s.Ordered(%d, ", simrtName, sid), ")", 3)
				} else if isChan(tv.Type) {
					s.wrap(t.X, simrtName+".ChanRange(", ")", 3)
					c.seams.Sync = append(c.seams.Sync, PosNote{Kind: "range over channel", Pos: c.pos(t.Pos()), Func: s.curFunc()})
				}
			}
		case *ast.UnaryExpr:
			if t.Op == token.AND {
				// every pointer value created in module code is registered where it is created (allocation of a composite
				// literal, or the address of a variable / field / element): registration is idempotent and gives pointer map
				// keys their canonical order
				if _, ok := unparen(t.X).(*ast.CompositeLit); ok {
					c.seams.AllocSites++
				}
				s.wrap(t, simrtName+".Reg(", ")", 2)
			}
			if t.Op == token.ARROW && !s.skipCh[t] {
				fn := "ChanRecv"
				if len(s.stack) >= 2 {
					switch p := s.stack[len(s.stack)-2].(type) {
					case *ast.AssignStmt:
						if len(p.Lhs) == 2 && len(p.Rhs) == 1 && unparen(p.Rhs[0]) == ast.Expr(t) {
							fn = "ChanRecv2"
						}
					case *ast.ValueSpec:
						if len(p.Names) == 2 && len(p.Values) == 1 && unparen(p.Values[0]) == ast.Expr(t) {
							fn = "ChanRecv2"
						}
					}
				}
				op := c.off(t.OpPos)
				s.add(edit{off: op, class: 2, extent: c.off(t.End()) - op, rank: 4, text: simrtName + "." + fn + "(", delTo: op + 2})
				s.add(edit{off: c.off(t.End()), class: 0, extent: c.off(t.End()) - op, rank: 4, text: ")"})
				c.seams.Sync = append(c.seams.Sync, PosNote{Kind: "channel receive", Pos: c.pos(t.Pos()), Func: s.curFunc()})
			}
		case *ast.SendStmt:
			if !s.skipCh[t] {
				a, e := c.off(t.Pos()), c.off(t.End())
				s.add(edit{off: a, class: 2, extent: e - a + 1, rank: 6, text: simrtName + ".ChanSend("})
				ar := c.off(t.Arrow)
				s.add(edit{off: ar, class: 0, extent: 1 << 20, rank: 9, text: ", ", delTo: ar + 2})
				s.add(edit{off: e, class: 0, extent: e - a + 1, rank: 6, text: ")"})
				c.seams.Sync = append(c.seams.Sync, PosNote{Kind: "channel send", Pos: c.pos(t.Pos()), Func: s.curFunc()})
			}
		case *ast.SelectStmt:
			hasDefault := false
			for _, cl := range t.Body.List {
				cc, ok := cl.(*ast.CommClause)
				if !ok {
					continue
				}
				if cc.Comm == nil {
					hasDefault = true
					continue
				}
				switch cm := cc.Comm.(type) {
				case *ast.SendStmt:
					s.skipCh[cm] = true
				case *ast.ExprStmt:
					s.skipCh[unparen(cm.X)] = true
				case *ast.AssignStmt:
					if len(cm.Rhs) == 1 {
						s.skipCh[unparen(cm.Rhs[0])] = true
					}
				}
			}
			s.selectStmt(t, hasDefault)
		case *ast.GoStmt:
			s.goStmt(t)
		case *ast.CallExpr:
			s.call(t)
		case *ast.SelectorExpr:
			if s.selector(t) {
				// fully handled (replaced or wrapped as a whole): do not descend
				s.stack = s.stack[:len(s.stack)-1]
				return false
			}
		case *ast.Ident:
			s.ident(t, t)
		case *ast.BasicLit:
			if t.Kind == token.STRING && strings.Contains(t.Value, "%p") {
				c.seams.Unowned = append(c.seams.Unowned, PosNote{Kind: "%p format verb", Pos: c.pos(t.Pos()), Func: s.curFunc()})
			}
		}
		return true
	}
	ast.Inspect(f, visit)

	if len(s.edits) == 0 {
		return nil
	}
	// import of the runtime, on the package clause line
	imp := fmt.Sprintf("; import %s %q", simrtName, simrtPath)
	s.add(edit{off: c.off(f.Name.End()), class: 0, text: imp})
	// keep-alive for imports whose only uses may have been replaced
	var tail strings.Builder
	names := make([]string, 0, len(s.keep))
	for k := range s.keep {
		names = append(names, k)
	}
	sort.Strings(names)
	for _, k := range names {
		fmt.Fprintf(&tail, "\nvar _ = %s.%s\n", k, s.keep[k])
	}
	fmt.Fprintf(&tail, "\nvar _ = %s.Enter\n", simrtName)
	s.add(edit{off: c.off(f.End()), class: 0, extent: 1 << 30, text: tail.String()})
	return s.edits
}

// noteDeferFirst records functions whose first statement is a defer: in real Go nothing can panic between the entry of
// such a function and the registration of that defer, so the entry tick (which the rewrite places before it) must not
// be a fault point - a clean-up or recover installed first thing in a function is in place before anything can fail.
func (c *ctx) noteDeferFirst(id int, body *ast.BlockStmt) {
	if body != nil && len(body.List) > 0 {
		if _, ok := body.List[0].(*ast.DeferStmt); ok {
			c.seams.DeferFirst = append(c.seams.DeferFirst, id)
		}
	}
}

func shortQual(p *types.Package) string { return p.Name() }

func recvName(e ast.Expr) string {
	switch t := e.(type) {
	case *ast.StarExpr:
		return "(*" + recvName(t.X) + ")"
	case *ast.Ident:
		return t.Name
	case *ast.IndexExpr:
		return recvName(t.X)
	case *ast.IndexListExpr:
		return recvName(t.X)
	case *ast.ParenExpr:
		return recvName(t.X)
	}
	return "?"
}

func unparen(e ast.Expr) ast.Expr {
	for {
		p, ok := e.(*ast.ParenExpr)
		if !ok {
			return e
		}
		e = p.X
	}
}

func coreUnder(t types.Type) types.Type {
	if t == nil {
		return nil
	}
	u := t.Underlying()
	if tp, ok := u.(*types.Interface); ok {
		_ = tp
		if ct := coreType(t); ct != nil {
			return ct
		}
	}
	return u
}

// coreType returns the single underlying type of a type parameter's type set, if any.
func coreType(t types.Type) types.Type {
	tp, ok := t.(*types.TypeParam)
	if !ok {
		return nil
	}
	iface, ok := tp.Constraint().Underlying().(*types.Interface)
	if !ok {
		return nil
	}
	var u types.Type
	for i := 0; i < iface.NumEmbeddeds(); i++ {
		et := iface.EmbeddedType(i)
		switch e := et.(type) {
		case *types.Union:
			for j := 0; j < e.Len(); j++ {
				tu := e.Term(j).Type().Underlying()
				if u == nil {
					u = tu
				} else if !types.Identical(u, tu) {
					return nil
				}
			}
		default:
			tu := et.Underlying()
			if _, isIface := tu.(*types.Interface); isIface {
				continue
			}
			if u == nil {
				u = tu
			} else if !types.Identical(u, tu) {
				return nil
			}
		}
	}
	return u
}

func isMap(t types.Type) bool {
	_, ok := coreUnder(t).(*types.Map)
	return ok
}

func isChan(t types.Type) bool {
	_, ok := coreUnder(t).(*types.Chan)
	return ok
}

// pkgOf returns the imported package path if x is an identifier denoting a package.
func (s *fileState) pkgOf(x ast.Expr) (string, string, bool) {
	id, ok := x.(*ast.Ident)
	if !ok {
		return "", "", false
	}
	pn, ok := s.info.Uses[id].(*types.PkgName)
	if !ok {
		return "", "", false
	}
	return pn.Imported().Path(), id.Name, true
}

var timeRepl = map[string]string{"Now": "Now", "Since": "Since", "Until": "Until", "Sleep": "Sleep",
	"After": "After", "Tick": "TimeTick", "NewTimer": "NewTimer", "NewTicker": "NewTicker", "AfterFunc": "AfterFunc"}
var timeUnowned = map[string]bool{}
var ctxRepl = map[string]string{"WithCancel": "CtxWithCancel", "WithTimeout": "CtxWithTimeout", "WithDeadline": "CtxWithDeadline"}
var ctxUnowned = map[string]bool{"WithCancelCause": true, "WithTimeoutCause": true, "WithDeadlineCause": true, "AfterFunc": true, "WithoutCancel": true}
var envRepl = map[string]string{"runtime.NumCPU": "NumCPU", "runtime.GOMAXPROCS": "GOMAXPROCS", "runtime.NumGoroutine": "NumGoroutine",
	"os.Getpid": "Getpid", "os.Hostname": "Hostname", "os.Getenv": "Getenv", "os.LookupEnv": "LookupEnv"}
var envUnowned = map[string]bool{"os.Environ": true, "os.Args": true, "os.Getwd": true, "os.Getuid": true, "os.Getppid": true, "os.Executable": true, "os.UserHomeDir": true,
	"os.ReadFile": true, "os.Open": true, "os.Stat": true, "runtime.ReadMemStats": true, "runtime.SetFinalizer": true, "runtime.GC": true, "runtime.Gosched": true,
	"runtime.Caller": true, "runtime.Callers": true, "runtime.Stack": true, "runtime.KeepAlive": false, "runtime.AddCleanup": true, "runtime.LockOSThread": true}
var randRepl = map[string]string{
	"Int": "RandInt", "Intn": "RandIntn", "Int31": "RandInt31", "Int31n": "RandInt31n", "Int63": "RandInt63", "Int63n": "RandInt63n",
	"Uint32": "RandUint32", "Uint64": "RandUint64", "Float64": "RandFloat64", "Float32": "RandFloat32", "Perm": "RandPerm",
	"Shuffle": "RandShuffle", "Seed": "RandSeed", "NormFloat64": "RandNormFloat64", "ExpFloat64": "RandExpFloat64",
}
var rand2Repl = map[string]string{
	"Int": "RandInt", "IntN": "RandIntn", "Int32": "RandInt31", "Int32N": "RandInt31n", "Int64": "RandInt63", "Int64N": "RandInt63n",
	"Uint32": "RandUint32", "Uint64": "RandUint64", "Float64": "RandFloat64", "Float32": "RandFloat32", "Perm": "RandPerm",
	"Shuffle": "RandShuffle", "NormFloat64": "RandNormFloat64", "ExpFloat64": "RandExpFloat64", "UintN": "RandUintN", "Uint64N": "RandUint64N", "Uint32N": "RandUint32N", "Uint": "RandUint",
}

// selector handles pkg.Name selectors: clock/entropy replacement and qualified package-level variables.
// It reports whether the node was handled as a whole.
func (s *fileState) selector(t *ast.SelectorExpr) bool {
	path, local, ok := s.pkgOf(t.X)
	if !ok {
		return false
	}
	c := s.c
	switch path {
	case "time":
		if r, ok := timeRepl[t.Sel.Name]; ok {
			s.replace(t, simrtName+"."+r)
			s.keep[local] = "Now"
			c.seams.Clock = append(c.seams.Clock, PosNote{Kind: "time." + t.Sel.Name, Pos: c.pos(t.Pos()), Func: s.curFunc()})
			return true
		}
		if timeUnowned[t.Sel.Name] {
			c.seams.Unowned = append(c.seams.Unowned, PosNote{Kind: "time." + t.Sel.Name, Pos: c.pos(t.Pos()), Func: s.curFunc()})
		}
		return true
	case "math/rand":
		if r, ok := randRepl[t.Sel.Name]; ok {
			s.replace(t, simrtName+"."+r)
			s.keep[local] = "Int"
			c.seams.Clock = append(c.seams.Clock, PosNote{Kind: "math/rand." + t.Sel.Name, Pos: c.pos(t.Pos()), Func: s.curFunc()})
		}
		return true
	case "math/rand/v2":
		if r, ok := rand2Repl[t.Sel.Name]; ok {
			s.replace(t, simrtName+"."+r)
			s.keep[local] = "Int"
			c.seams.Clock = append(c.seams.Clock, PosNote{Kind: "math/rand/v2." + t.Sel.Name, Pos: c.pos(t.Pos()), Func: s.curFunc()})
		} else if t.Sel.Name == "N" {
			c.seams.Unowned = append(c.seams.Unowned, PosNote{Kind: "math/rand/v2.N", Pos: c.pos(t.Pos()), Func: s.curFunc()})
		}
		return true
	case "maps":
		switch t.Sel.Name {
		case "Keys", "Values", "All":
			// handled at the call (needs the argument's type); nothing here
		}
		return false
	case "os", "runtime":
		if r, ok := envRepl[path+"."+t.Sel.Name]; ok {
			s.replace(t, simrtName+"."+r)
			s.keep[local] = map[string]string{"os": "Getpid", "runtime": "NumCPU"}[path]
			c.seams.Clock = append(c.seams.Clock, PosNote{Kind: path + "." + t.Sel.Name, Pos: c.pos(t.Pos()), Func: s.curFunc()})
			return true
		}
		if envUnowned[path+"."+t.Sel.Name] {
			c.seams.Unowned = append(c.seams.Unowned, PosNote{Kind: path + "." + t.Sel.Name, Pos: c.pos(t.Pos()), Func: s.curFunc()})
		}
		return true
	case "context":
		if r, ok := ctxRepl[t.Sel.Name]; ok {
			s.replace(t, simrtName+"."+r)
			s.keep[local] = "Background"
			c.seams.Clock = append(c.seams.Clock, PosNote{Kind: "context." + t.Sel.Name, Pos: c.pos(t.Pos()), Func: s.curFunc()})
			return true
		}
		if ctxUnowned[t.Sel.Name] {
			c.seams.Unowned = append(c.seams.Unowned, PosNote{Kind: "context." + t.Sel.Name, Pos: c.pos(t.Pos()), Func: s.curFunc()})
		}
		return true
	}
	// qualified package-level variable of an instrumented package
	if v, ok := s.info.Uses[t.Sel].(*types.Var); ok {
		if _, mine := c.varID[v]; mine {
			s.ident(t.Sel, t)
			return true
		}
	}
	return true // pkg.Something else: nothing to descend into
}

// ident handles a use of a package-level variable. node is the expression to wrap
// (the identifier itself, or the enclosing pkg.Name selector).
func (s *fileState) ident(id *ast.Ident, node ast.Expr) {
	v, ok := s.info.Uses[id].(*types.Var)
	if !ok {
		return
	}
	vid, ok := s.c.varID[v]
	if !ok {
		return
	}
	if s.inInit > 0 && s.curFunc() == "" {
		return // package-level initialiser expression: runs before any task exists
	}
	kind := s.classify(node)
	acc := len(s.c.seams.Accesses)
	s.c.seams.Accesses = append(s.c.seams.Accesses, Access{Var: vid, Name: s.c.seams.Vars[vid].Name, Kind: kindName[kind],
		Pos: s.c.pos(id.Pos()), Func: s.curFunc()})
	s.wrap(node, fmt.Sprintf("(*%s.A(%d, %d, %d, &", simrtName, acc, vid, kind), "))", 0)
}

func (s *fileState) typeOf(e ast.Expr) types.Type {
	if tv, ok := s.info.Types[e]; ok {
		return tv.Type
	}
	if id, ok := e.(*ast.Ident); ok {
		if o := s.info.Uses[id]; o != nil {
			return o.Type()
		}
	}
	return nil
}

func isRefType(t types.Type) bool {
	switch coreUnder(t).(type) {
	case *types.Pointer, *types.Map, *types.Slice, *types.Chan, *types.Signature, *types.Interface:
		return true
	}
	return false
}

// classify determines how the package-level variable denoted by node is accessed, by walking up the
// enclosing expression. The stack's last element is the identifier (or selector) itself.
func (s *fileState) classify(node ast.Expr) int {
	var cur ast.Node = node
	through := false
	// find index of node in stack
	i := len(s.stack) - 1
	for i >= 0 && s.stack[i] != cur {
		i--
	}
	res := func(write bool) int {
		switch {
		case write && through:
			return kWT
		case write:
			return kW
		case through:
			return kRT
		}
		return kR
	}
	for i--; i >= 0; i-- {
		switch p := s.stack[i].(type) {
		case *ast.ParenExpr:
			cur = p
			continue
		case *ast.SelectorExpr:
			if p.X != cur {
				return res(false)
			}
			if sel, ok := s.info.Selections[p]; ok {
				if sel.Kind() == types.MethodVal || sel.Kind() == types.MethodExpr {
					if fn, ok := sel.Obj().(*types.Func); ok {
						sig := fn.Type().(*types.Signature)
						if sig.Recv() != nil {
							// the variable itself is a pointer / interface / other reference: calling a method
							// reads the variable; what the method does to the pointee is unknown (not judged)
							if e, ok := cur.(ast.Expr); ok && isRefType(s.typeOf(e)) {
								return res(false)
							}
							if _, ptr := sig.Recv().Type().(*types.Pointer); ptr {
								return kU // address of the variable taken implicitly
							}
						}
					}
					return res(false)
				}
				if sel.Indirect() {
					through = true
				}
			}
			cur = p
			continue
		case *ast.IndexExpr:
			if p.X != cur {
				return res(false)
			}
			switch coreUnder(s.typeOf(p.X)).(type) {
			case *types.Map, *types.Slice, *types.Pointer:
				through = true
			}
			cur = p
			continue
		case *ast.StarExpr:
			through = true
			cur = p
			continue
		case *ast.SliceExpr:
			if p.X == cur {
				return res(false)
			}
			return res(false)
		case *ast.UnaryExpr:
			if p.Op == token.AND {
				return kU
			}
			return res(false)
		case *ast.AssignStmt:
			for _, l := range p.Lhs {
				if l == cur {
					return res(true)
				}
			}
			return res(false)
		case *ast.IncDecStmt:
			return res(true)
		case *ast.RangeStmt:
			if p.Key == cur || p.Value == cur {
				return res(true)
			}
			if p.X == cur {
				if isRefType(s.typeOf(p.X)) {
					through = true
				}
			}
			return res(false)
		case *ast.CallExpr:
			if p.Fun == cur {
				return res(false)
			}
			if fid, ok := unparen(p.Fun).(*ast.Ident); ok {
				if _, isBuiltin := s.info.Uses[fid].(*types.Builtin); isBuiltin {
					first := len(p.Args) > 0 && p.Args[0] == cur
					switch fid.Name {
					case "delete", "clear":
						if first {
							through = true
							return res(true)
						}
						return res(false)
					case "copy":
						if first {
							through = true
							return res(true)
						}
						through = true
						return res(false)
					case "len", "cap":
						if _, m := coreUnder(s.typeOf(p.Args[0])).(*types.Map); m {
							through = true
						}
						return res(false)
					case "append":
						if first {
							through = true // append reads the elements (and may write into spare capacity)
							return kU
						}
						return res(false)
					default:
						return res(false)
					}
				}
			}
			if e, ok := cur.(ast.Expr); ok && isRefType(s.typeOf(e)) {
				return kU
			}
			return res(false)
		default:
			return res(false)
		}
	}
	return res(false)
}

// call handles new(T), maps.Keys/Values/All and sync primitives.
func (s *fileState) call(t *ast.CallExpr) {
	c := s.c
	if fid, ok := unparen(t.Fun).(*ast.Ident); ok {
		if _, isBuiltin := s.info.Uses[fid].(*types.Builtin); isBuiltin && fid.Name == "new" {
			c.seams.AllocSites++
			s.wrap(t, simrtName+".Reg(", ")", 2)
		}
		if _, isBuiltin := s.info.Uses[fid].(*types.Builtin); isBuiltin && fid.Name == "close" && len(t.Args) == 1 && isChan(s.typeOf(t.Args[0])) {
			s.replace(t.Fun, simrtName+".ChanClose")
			c.seams.Sync = append(c.seams.Sync, PosNote{Kind: "channel close", Pos: c.pos(t.Pos()), Func: s.curFunc()})
		}
		// R9: uintptr(unsafe.Pointer(x)) - the numeric value (and so the order) of addresses of distinct
		// allocations is unspecified: the simulator picks it
		if tv, ok := s.info.Types[t.Fun]; ok && tv.IsType() && len(t.Args) == 1 {
			if b, ok := tv.Type.Underlying().(*types.Basic); ok && b.Kind() == types.Uintptr {
				if ab, ok := s.typeOf(t.Args[0]).Underlying().(*types.Basic); ok && ab.Kind() == types.UnsafePointer {
					s.replace(t.Fun, simrtName+".Addr")
					c.seams.Clock = append(c.seams.Clock, PosNote{Kind: "uintptr(unsafe.Pointer)", Pos: c.pos(t.Pos()), Func: s.curFunc()})
				}
			}
		}
		return
	}
	sel, ok := unparen(t.Fun).(*ast.SelectorExpr)
	if !ok {
		return
	}
	if path, _, ok := s.pkgOf(sel.X); ok {
		if path == "maps" && len(t.Args) == 1 {
			switch sel.Sel.Name {
			case "Keys", "Values", "All":
				if isMap(s.typeOf(t.Args[0])) {
					sid := len(c.seams.RangeSites)
					c.seams.RangeSites = append(c.seams.RangeSites, RangeSite{ID: sid, Pos: c.pos(t.Pos()), Func: s.curFunc(),
						MapType: types.TypeString(s.typeOf(t.Args[0]), shortQual), Via: "maps." + sel.Sel.Name})
					// maps.Keys(m) -> zzsimrt.MapsKeys(site, m)
					s.replace(sel, fmt.Sprintf("%s.Maps%s", simrtName, sel.Sel.Name))
					s.add(edit{off: c.off(t.Lparen) + 1, class: 1, text: fmt.Sprintf("%d, ", sid)})
					if _, local, ok := s.pkgOf(sel.X); ok {
						s.keep[local] = "Clone[map[int]int]"
					}
				}
			}
		}
		if path == "sync/atomic" {
			if isAtomicVerb(sel.Sel.Name) && len(t.Args) >= 1 {
				s.atomicOp(t, t.Args[0], true, "", "sync/atomic."+sel.Sel.Name)
			} else {
				c.seams.Unowned = append(c.seams.Unowned, PosNote{Kind: "sync/atomic." + sel.Sel.Name, Pos: c.pos(t.Pos()), Func: s.curFunc()})
			}
		}
		return
	}
	// method calls on sync types
	if selinfo, ok := s.info.Selections[sel]; ok && selinfo.Kind() == types.MethodVal {
		fn, _ := selinfo.Obj().(*types.Func)
		if fn == nil || fn.Pkg() == nil {
			return
		}
		switch fn.Pkg().Path() {
		case "reflect":
			if fn.Name() == "MapRange" {
				c.seams.Unowned = append(c.seams.Unowned, PosNote{Kind: "reflect.Value.MapRange", Pos: c.pos(t.Pos()), Func: s.curFunc()})
			}
			if fn.Name() == "MapKeys" && len(t.Args) == 0 {
				sid := len(c.seams.RangeSites)
				c.seams.RangeSites = append(c.seams.RangeSites, RangeSite{ID: sid, Pos: c.pos(t.Pos()), Func: s.curFunc(), MapType: "reflect.Value", Via: "reflect.Value.MapKeys"})
				xa, xb := c.off(sel.X.Pos()), c.off(sel.X.End())
				s.add(edit{off: xa, class: 2, extent: c.off(t.End()) - xa + 1, rank: 5, text: fmt.Sprintf("%s.ReflectMapKeys(%d, (", simrtName, sid)})
				s.add(edit{off: xb, class: 0, extent: xb - xa, rank: 9, text: ")", delTo: c.off(t.Lparen) + 1})
			}
		case "sync", "time":
			recv := fn.Type().(*types.Signature).Recv().Type()
			rname := types.TypeString(recv, shortQual)
			rname = strings.TrimPrefix(rname, "*")
			key := rname + "." + fn.Name()
			repl := map[string]string{
				"sync.Mutex.Lock": "MutexLock", "sync.Mutex.Unlock": "MutexUnlock", "sync.Mutex.TryLock": "MutexTryLock",
				"sync.RWMutex.Lock": "RWLock", "sync.RWMutex.Unlock": "RWUnlock", "sync.RWMutex.RLock": "RWRLock", "sync.RWMutex.RUnlock": "RWRUnlock",
				"sync.RWMutex.TryLock": "RWTryLock", "sync.RWMutex.TryRLock": "RWTryRLock",
				"sync.WaitGroup.Add": "WGAdd", "sync.WaitGroup.Done": "WGDone", "sync.WaitGroup.Wait": "WGWait",
				"sync.Once.Do": "OnceDo",
				"sync.Pool.Get": "PoolGet", "sync.Pool.Put": "PoolPut",
				"sync.Cond.Wait": "CondWait", "sync.Cond.Signal": "CondSignal", "sync.Cond.Broadcast": "CondBroadcast",
				"time.Timer.Stop": "TimerStop", "time.Timer.Reset": "TimerReset", "time.Ticker.Stop": "TickerStop", "time.Ticker.Reset": "TickerReset",
			}
			if r, ok := repl[key]; ok {
				// x.Lock() -> zzsimrt.MutexLock(&x) ; x may be addressable value or pointer
				recvExpr := sel.X
				xt := s.typeOf(recvExpr)
				amp := "&"
				if _, isPtr := coreUnder(xt).(*types.Pointer); isPtr {
					amp = ""
				}
				// embedded sync type promoted through a struct: select the embedded field explicitly
				path := ""
				if len(selinfo.Index()) > 1 {
					path = embeddedPath(xt, selinfo.Index())
					if path == "" {
						c.seams.Unowned = append(c.seams.Unowned, PosNote{Kind: "sync (embedded) " + key, Pos: c.pos(t.Pos()), Func: s.curFunc()})
						return
					}
					amp = "&"
				}
				a, b := c.off(t.Pos()), c.off(t.End())
				xa, xb := c.off(recvExpr.Pos()), c.off(recvExpr.End())
				lp, rp := c.off(t.Lparen), c.off(t.Rparen)
				_ = a
				// prefix before receiver, delete ".Method(" , keep args, keep ")"
				s.add(edit{off: xa, class: 2, extent: b - xa + 1, rank: 5, text: fmt.Sprintf("%s.%s(%s(", simrtName, r, amp)})
				sep := ""
				if len(t.Args) > 0 {
					sep = ", "
				}
				s.add(edit{off: xb, class: 0, extent: xb - xa, rank: 9, text: ")" + path + sep, delTo: lp + 1})
				_ = rp
				c.seams.Sync = append(c.seams.Sync, PosNote{Kind: key, Pos: c.pos(t.Pos()), Func: s.curFunc()})
				return
			}
			if fn.Pkg().Path() == "sync" {
				c.seams.Unowned = append(c.seams.Unowned, PosNote{Kind: "sync method " + key, Pos: c.pos(t.Pos()), Func: s.curFunc()})
			}
		case "sync/atomic":
			if !isAtomicVerb(fn.Name()) {
				break
			}
			xt := s.typeOf(sel.X)
			_, isPtr := coreUnder(xt).(*types.Pointer)
			path := ""
			if len(selinfo.Index()) > 1 {
				path = embeddedPath(xt, selinfo.Index())
				if path == "" {
					c.seams.Unowned = append(c.seams.Unowned, PosNote{Kind: "sync/atomic (embedded) method " + fn.Name(), Pos: c.pos(t.Pos()), Func: s.curFunc()})
					break
				}
			}
			s.atomicOp(t, sel.X, isPtr, path, "sync/atomic method "+fn.Name())
		}
	}
}

func embeddedPath(t types.Type, index []int) string {
	path := ""
	for _, ix := range index[:len(index)-1] {
		if p, ok := t.Underlying().(*types.Pointer); ok {
			t = p.Elem()
		}
		st, ok := t.Underlying().(*types.Struct)
		if !ok {
			return ""
		}
		f := st.Field(ix)
		path += "." + f.Name()
		t = f.Type()
	}
	return path
}

// selectStmt rewrites the operands of a select statement (see simrt/sel.go): every channel operand is wrapped, in
// source order, and every clause body starts with SelDone. The statement itself stays.
func (s *fileState) selectStmt(t *ast.SelectStmt, hasDefault bool) {
	c := s.c
	var comm []*ast.CommClause
	for _, cl := range t.Body.List {
		if cc, ok := cl.(*ast.CommClause); ok && cc.Comm != nil {
			comm = append(comm, cc)
		}
	}
	if len(t.Body.List) == 0 {
		s.add(edit{off: c.off(t.Pos()), class: 2, extent: 1 << 20, rank: 9, text: simrtName + ".BlockForever(); "})
		c.seams.Sync = append(c.seams.Sync, PosNote{Kind: "select {}", Pos: c.pos(t.Pos()), Func: s.curFunc()})
		return
	}
	m := len(comm)
	k := 0
	for _, cl := range t.Body.List {
		cc, ok := cl.(*ast.CommClause)
		if !ok {
			continue
		}
		if cc.Comm == nil {
			s.add(edit{off: c.off(cc.Colon) + 1, class: 1, text: fmt.Sprintf(" %s.SelDone(-1);", simrtName)})
			continue
		}
		var chanExpr ast.Expr
		fn := "SelRecv"
		switch cm := cc.Comm.(type) {
		case *ast.SendStmt:
			chanExpr, fn = cm.Chan, "SelSend"
		case *ast.ExprStmt:
			if u, ok := unparen(cm.X).(*ast.UnaryExpr); ok && u.Op == token.ARROW {
				chanExpr = u.X
			}
		case *ast.AssignStmt:
			if len(cm.Rhs) == 1 {
				if u, ok := unparen(cm.Rhs[0]).(*ast.UnaryExpr); ok && u.Op == token.ARROW {
					chanExpr = u.X
				}
			}
		}
		if chanExpr == nil {
			c.seams.Unowned = append(c.seams.Unowned, PosNote{Kind: "select clause of unknown form", Pos: c.pos(cc.Pos()), Func: s.curFunc()})
			k++
			continue
		}
		s.wrap(chanExpr, fmt.Sprintf("%s.%s(%d, %v, %d, ", simrtName, fn, m, hasDefault, k), ")", 8)
		s.add(edit{off: c.off(cc.Colon) + 1, class: 1, text: fmt.Sprintf(" %s.SelDone(%d);", simrtName, k)})
		k++
	}
	kind := "select"
	if hasDefault {
		kind = "select with default"
	}
	c.seams.Sync = append(c.seams.Sync, PosNote{Kind: kind, Pos: c.pos(t.Pos()), Func: s.curFunc()})
}

// atomicOp rewrites one sync/atomic operation: recv is the expression that denotes the atomic variable (the receiver
// of a method, or the first argument of a function, which is already a pointer).
func (s *fileState) atomicOp(t *ast.CallExpr, recv ast.Expr, isPtr bool, path string, what string) {
	c := s.c
	// where does the call stand?
	form := "value"
	if n := len(s.stack); n >= 2 {
		switch p := s.stack[n-2].(type) {
		case *ast.DeferStmt, *ast.GoStmt:
			_ = p
			form = "only"
		case *ast.ExprStmt:
			form = "only"
			if n >= 3 {
				switch s.stack[n-3].(type) {
				case *ast.BlockStmt, *ast.CaseClause, *ast.CommClause:
					form = "stmt"
				}
			}
		}
	}
	hasResult := false
	if tv, ok := s.info.Types[t]; ok && tv.Type != nil {
		if tup, isTup := tv.Type.(*types.Tuple); !isTup || tup.Len() > 0 {
			hasResult = true
		}
	}
	if form == "value" && !hasResult {
		form = "only"
	}
	if form == "stmt" && hasResult {
		form = "value"
	}
	pre := "AtPre"
	if form == "only" {
		pre = "AtOnly"
	}
	amp := "&"
	if isPtr && path == "" {
		amp = ""
	}
	s.wrap(recv, fmt.Sprintf("%s.%s(%s", simrtName, pre, amp), path+")", 7)
	switch form {
	case "value":
		s.wrap(t, simrtName+".AtVal(", ")", 1)
	case "stmt":
		s.add(edit{off: c.off(t.End()), class: 0, extent: 1 << 21, rank: 9, text: "; " + simrtName + ".AtPost()"})
	}
	c.seams.Sync = append(c.seams.Sync, PosNote{Kind: what + " (" + form + ")", Pos: c.pos(t.Pos()), Func: s.curFunc()})
}

var atomicVerbs = []string{"Load", "Store", "Add", "Swap", "CompareAndSwap", "And", "Or"}

func isAtomicVerb(name string) bool {
	for _, v := range atomicVerbs {
		if strings.HasPrefix(name, v) {
			return true
		}
	}
	return false
}

func (s *fileState) goStmt(t *ast.GoStmt) {
	c := s.c
	// go f(x) -> zzsimrt.Go(func() { f(x) })   (arguments are evaluated in the new task; noted below)
	a := c.off(t.Pos())
	callA, callB := c.off(t.Call.Pos()), c.off(t.Call.End())
	s.add(edit{off: a, class: 2, extent: callB - a + 2, rank: 9, text: simrtName + ".Go(func() { ", delTo: callA})
	s.add(edit{off: callB, class: 0, extent: callB - a + 2, rank: 9, text: " })"})
	c.seams.Sync = append(c.seams.Sync, PosNote{Kind: "go statement", Pos: c.pos(t.Pos()), Func: s.curFunc()})
}
